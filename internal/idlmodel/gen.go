package idlmodel

import (
	"fmt"
	"math"
	"strings"

	"pgregory.net/rapid"
)

// GenOpts steers the program generator.
type GenOpts struct {
	MaxFiles     int  // 1..MaxFiles files (default 3)
	Services     bool // generate services
	Defaults     bool // field defaults
	Consts       bool // constants
	Annotations  bool // go.* annotations
	Recursive    bool // self-referential structs via optional fields / containers
	NonStrict    bool // omit requiredness on some fields, compile non-strict
	Small        bool // fewer / smaller definitions (faster labs)
	RedactRate   int  // when > 0, one field in RedactRate carries go.redact and one in 2*RedactRate go.nolog (C15 labs)
	MoreServices bool // more services and functions per file (C19)
	UniqueNames  bool // never define the same type name in two files
	ForceCluster bool // every file defines one shared type name (see genCluster); otherwise one program in three
	TypedefArgs  bool // every file gets typedefs of every shape and function signatures prefer them (C19)
	Hostile      bool // draw identifiers and file names from the hostile pool (Go keywords, initialisms, generated-method names, std package names)
	BackEdges    bool // cyclic includes: later files include earlier ones and typedef their types (compile-only properties)
	TypeAnnots   bool // annotations with arbitrary keys on typedefs, structs, unions, exceptions, enums and on base / container type expressions (string (validate.format = "hex"), set<string> (go.type = "slice", owner = "x")): the TYPE of a field then has annotations of its own (C15)
	DefGoNames   bool // one enum, struct, union, exception or typedef in three carries (go.name = "..."): its Go type is not called what its Thrift name says, wherever it is mentioned (C19; safe pool only)
	SameBaseRuns bool // one program in two with >= 3 files gives three or four of its files, neighbours included, one base name in different directories; services prefer parents in same-named files (C19)
	// Avoid lists defect classes the generator must not produce (known,
	// unrepaired defects excluded by construction; each exclusion is counted
	// by the caller through Excluded).
	Avoid map[string]bool
	// Excluded counts, per class, how many times the generator steered away.
	Excluded map[string]int
}

func (o *GenOpts) avoid(class string) bool {
	if o.Avoid[class] {
		if o.Excluded == nil {
			o.Excluded = map[string]int{}
		}
		o.Excluded[class]++
		return true
	}
	return false
}

var typeStems = []string{"Alpha", "Bravo", "Cargo", "Delta", "Ember", "Flint", "Grove", "Haven", "Ivory", "Jolly", "Karma", "Lumen", "Mango", "Noble", "Ocean", "Pearl", "Quill", "Raven", "Sable", "Tango", "Umbra", "Vivid", "Waltz", "Xenon", "Yacht", "Zesty"}
var fieldStems = []string{"amber", "birch", "cedar", "dune", "elm", "fern", "glade", "heath", "iris", "juniper", "kelp", "larch", "moss", "nettle", "oak", "pine", "quartz", "reed", "sage", "thyme", "umber", "vine", "willow", "yarrow", "zinnia",
	"first_name", "user_id", "homeURL", "http_port", "x", "k2", "maxQPS", "node_ip", "RawData", "Snake_Mixed"}
var itemStems = []string{"RED", "GREEN", "BLUE", "DARK_RED", "Cyan", "magenta", "light_blue", "X1", "NONE", "MAX_VALUE", "lowerCamel", "UpperCamel"}
var fileStems = []string{"apple", "banana", "cherry", "dates", "elder", "figs", "grape", "hazel"}

// trickyFileStems: legal file names whose Go package is called like a local variable of the
// generated code or like a package the generated code imports (F24, F26, F27, F29). Half of the
// files of the safe pool are called like this.
var trickyFileStems = []string{"v", "err", "fmt", "init", "x", "i", "j", "w", "sr", "sw", "rhs", "lhs", "result", "success", "e", "value", "key", "ok", "text", "enc",
	"strings", "errors", "bytes", "wire", "stream", "ptr", "math", "strconv", "s", "t", "d", "f", "k", "o", "l", "m", "y", "lh", "mh", "sh", "fh", "kw", "vw", "val", "count", "field", "fields", "request",
	"json", "zapcore", "multierr", "base64", "thriftreflect"}
var funcStems = []string{"getThing", "put", "list_all", "remove", "ping", "compute", "fetchURL", "do_it"}

var hostileTypes = []string{"String", "Error", "ToWire", "FromWire", "Equals", "Ptr", "Type", "Value", "List_X", "ListX", "HTTPServer", "HttpServer", "Http_Server", "Foo_Bar", "FooBar", "Default_Foo", "Foo", "Foo_Values", "MarshalLogObject", "Svc_Do_Args", "Svc_Do_Result", "Svc_Do_Helper", "ThriftModule", "Map_String_String", "MapStringString", "Enum", "Struct", "Reader", "Writer", "Wire", "Stream", "Errors", "Fmt", "ID", "Id", "URL", "Url", "lowercase", "x", "X", "T", "Interface"}
var hostileFields = []string{"error", "Error", "string", "String", "to_wire", "ToWire", "from_wire", "FromWire", "equals", "Equals", "encode", "decode", "get_x", "x", "is_set_x", "IsSetX", "GetX", "errorName", "error_name", "ErrorName", "func", "range", "chan", "interface", "go", "package", "default", "select", "ptr", "Ptr", "URL", "url", "Url", "user_id", "userId", "UserID", "userID", "v", "rhs", "w", "sr", "sw", "err", "i", "fields", "ok", "fh", "_", "__", "a_", "_a", "A", "a", "method_name", "MethodName", "envelope_type", "success", "Success", "marshal_log_object", "len", "nil", "true_", "int8", "float64", "byte", "error_"}
var hostileItems = []string{"String", "Values", "Ptr", "A", "a", "foo_bar", "fooBar", "FOO_BAR", "FooBar", "ToWire", "Equals", "MarshalText", "func", "nil", "x", "X", "_1", "Value", "Unknown"}
var hostileFiles = []string{"fmt", "fmt2", "fmt3", "bytes", "wire", "stream", "zapcore", "ptr", "main", "strings", "errors", "math", "base64", "thriftreflect", "multierr", "strconv", "func", "go", "x_test", "init", "internal", "vendor", "gen", "doc", "UPPER", "a.b"}
var hostileFuncs = []string{"String", "Error", "ToWire", "func", "range", "Args", "Helper", "Result", "get", "Get", "do", "Do", "DO", "init", "main", "new", "New"}

type gctx struct {
	t      *rapid.T
	o      *GenOpts
	p      *Program
	n      int // name counter
	file   *File
	pool   []*Def // definitions visible from the current file (own + transitively? no: directly included files only)
	svcs   []*Def
	consts []*Def

	usedTypeNames  map[string]bool
	namesByFile    map[string]map[string]bool
	allTypeNames   []string
	sigTypedefs    []*Def // typedefs function signatures should prefer (TypedefArgs)
	structOnlyOK   bool   // the field list under construction belongs to a struct or union
	hden           int    // see hostileDen
	negIDsOK       bool   // negative field ids may be drawn (inside genStruct)
	clusterName    string // a type name every file of the program defines (name clusters)
	clusterConsts  []clusterConst
	clusterKind    int
	clusterKindSet bool
	enumItemNames  []string // Go constant names of generated enum items (hostile collisions)
	sameBaseRun    bool     // the program has a run of same-named files (SameBaseRuns)
}

func (g *gctx) label(s string) string { g.n++; return fmt.Sprintf("%s%d", s, g.n) }

func (g *gctx) intn(lo, hi int, what string) int {
	return rapid.IntRange(lo, hi).Draw(g.t, g.label(what))
}

func (g *gctx) chance(num, den int, what string) bool {
	return rapid.IntRange(1, den).Draw(g.t, g.label(what)) <= num
}

// thriftReserved: identifiers the Thrift lexer refuses. A hostile program that uses one does not
// parse, which is a clean rejection but exercises nothing of the generator: they are kept rare.
var thriftReserved = map[string]bool{}

func init() {
	for _, w := range strings.Fields("BEGIN END __CLASS__ __DIR__ __FILE__ __FUNCTION__ __LINE__ __METHOD__ __NAMESPACE__ abstract alias and args as assert begin break case catch class clone continue declare def default del delete do dynamic elif else elseif elsif end enddeclare endfor endforeach endif endswitch endwhile ensure except exec finally float for foreach from function global goto if implements import in inline instanceof interface is lambda module native new next nil not or package pass public print private protected raise redo rescue retry register return self sizeof static super switch synchronized then this throw transient try undef unless unsigned until use var virtual volatile when while with xor yield include cpp_include namespace void bool byte double string binary map list set oneway typedef struct union exception extends throws service enum const required optional true false i8 i16 i32 i64") {
		thriftReserved[w] = true
	}
}

// hostileDen: one site in hostileDen draws a hostile identifier. Drawn per program, so that some
// programs have a single hostile name (and usually generate and build) and others many.
func (g *gctx) hostileDen() int {
	if g.hden == 0 {
		g.hden = []int{2, 6, 16}[rapid.IntRange(0, 2).Draw(g.t, "hostile_density")]
	}
	return g.hden
}

func pickStr(g *gctx, ss []string, what string) string {
	if g.o.Hostile && g.chance(1, g.hostileDen(), what+"_h") {
		var h []string
		switch what {
		case "fname":
			h = hostileFields
		case "item":
			h = hostileItems
		case "fstem":
			h = hostileFiles
		case "fn":
			h = hostileFuncs
		}
		if h != nil {
			name := h[g.intn(0, len(h)-1, what+"_hi")]
			if what == "fstem" || !thriftReserved[name] || g.chance(1, 25, what+"_reserved") {
				return name
			}
		}
	}
	if what == "fstem" && g.chance(1, 2, "fstem_tricky") {
		return trickyFileStems[g.intn(0, len(trickyFileStems)-1, "fstem_t")]
	}
	return ss[g.intn(0, len(ss)-1, what)]
}

// GenProgram draws a well-formed program from the safe pool.
func GenProgram(t *rapid.T, o *GenOpts) *Program {
	if o.MaxFiles == 0 {
		o.MaxFiles = 3
	}
	g := &gctx{t: t, o: o, p: &Program{NonStrict: o.NonStrict}}
	nf := g.intn(1, o.MaxFiles, "nfiles")
	dirs := []string{"", "sub/", "sub/deep/", "other/"}
	used := map[string]bool{}
	var files []*File
	prevStem := ""
	// a run of same-named files: a/types.thrift, b/types.thrift, c/types.thrift ... A file may
	// include a file of its own base name (the include is visible under that name)
	forced := map[int][2]string{}
	if o.SameBaseRuns && nf >= 3 && g.chance(1, 2, "samebase_run") {
		k := nf
		if k > len(dirs) {
			k = len(dirs)
		}
		k = g.intn(3, k, "samebase_k")
		stem := pickStr(g, fileStems, "samebase_stem")
		idx := make([]int, nf)
		for i := range idx {
			idx[i] = i
		}
		idx = rapid.Permutation(idx).Draw(g.t, "samebase_files")
		dperm := rapid.Permutation(dirs).Draw(g.t, "samebase_dirs")
		for n := 0; n < k; n++ {
			forced[idx[n]] = [2]string{dperm[n], stem}
			used[dperm[n]+stem] = true
		}
		used["stem:"+stem] = true
		g.sameBaseRun = true
	}
	for i := 0; i < nf; i++ {
		if fs, ok := forced[i]; ok {
			prevStem = fs[1]
			files = append(files, &File{Path: fs[0] + fs[1] + ".thrift"})
			continue
		}
		stem := pickStr(g, fileStems, "fstem")
		dir := pickStr(g, dirs, "fdir")
		// the same base name may live in different directories (two files including both is
		// impossible: the include names would clash, see the include selection below)
		// (every file includes the next one, so that the whole program is reachable from the
		// first file: neighbours never share a base name)
		for used[dir+stem] || stem == prevStem || (used["stem:"+stem] && (g.o.UniqueNames || !g.chance(1, 2, "samebase"))) {
			stem += "x"
		}
		prevStem = stem
		used[dir+stem] = true
		used["stem:"+stem] = true
		files = append(files, &File{Path: dir + stem + ".thrift"})
	}
	g.p.Files = files
	if !o.UniqueNames && nf >= 2 && (o.ForceCluster || g.chance(1, 3, "cluster")) {
		g.clusterName = fmt.Sprintf("Shared%d", g.intn(1, 99, "cluster_n"))
		if g.chance(1, 3, "cluster_native") {
			// a custom type called like the mangled name of a native type (F25)
			g.clusterName = rapid.SampledFrom([]string{"String", "Binary", "Bool", "Double", "Byte", "I16", "I32", "I64"}).Draw(g.t, "cluster_native_name")
		}
	}
	// build from the leaves: file i may include files j > i
	defsOf := map[string][]*Def{}
	for i := nf - 1; i >= 0; i-- {
		f := files[i]
		g.file = f
		g.pool = nil
		incNames := map[string]bool{IncludeName(f.Path): true}
		if g.sameBaseRun {
			incNames = map[string]bool{}
		}
		for j := i + 1; j < nf; j++ {
			if j == i+1 || g.chance(1, 2, "inc") {
				if incNames[IncludeName(files[j].Path)] {
					continue // two includes visible under one name are not valid Thrift
				}
				incNames[IncludeName(files[j].Path)] = true
				f.Includes = append(f.Includes, files[j].Path)
				g.pool = append(g.pool, defsOf[files[j].Path]...)
			}
		}
		g.genFile(f)
		defsOf[f.Path] = f.Defs
	}
	if o.BackEdges && nf > 1 {
		// include cycles: a later file includes an earlier one and names one of its types
		for k, n := 0, g.intn(1, 2, "nback"); k < n; k++ {
			j := g.intn(1, nf-1, "backfrom")
			i := g.intn(0, j-1, "backto")
			from, to := files[j], files[i]
			clash := IncludeName(to.Path) == IncludeName(from.Path)
			for _, inc := range from.Includes {
				if inc != to.Path && IncludeName(inc) == IncludeName(to.Path) {
					clash = true
				}
			}
			if clash {
				continue
			}
			if !includes(from, to.Path) {
				from.Includes = append(from.Includes, to.Path)
			}
			var cands []*Def
			for _, d := range to.Defs {
				if d.Kind == DEnum || d.Kind == DTypedef || d.IsStructLike() {
					cands = append(cands, d)
				}
			}
			// a reference cycle across the two files: the typedef lives in the later file, its
			// target struct in the earlier one, and that struct reaches a field of the typedef's
			// type that carries a default. The structs have fields of builtin types only, so that
			// casting the default needs nothing but the root of the typedef (known finding K4 is
			// about defaults that need more than that).
			if g.o.Defaults && includes(to, from.Path) && g.chance(1, 2, "crosscycle") {
				g.file = to
				node, holder := g.newTypeName(), g.newTypeName()
				g.file = from
				alias := g.newTypeName()
				from.Defs = append(from.Defs, &Def{Kind: DTypedef, Name: alias, Target: &Type{K: TRef, Ref: &Ref{File: to.Path, Name: node}}, File: from.Path})
				to.Defs = append(to.Defs,
					&Def{Kind: DStruct, Name: node, File: to.Path, Fields: []*Field{
						{ID: 1, Name: "holder", Type: &Type{K: TRef, Ref: &Ref{File: to.Path, Name: holder}}, Req: "optional"},
						{ID: 2, Name: "weight", Type: &Type{K: TI32}, Req: "optional"},
						{ID: 3, Name: "label", Type: &Type{K: TString}, Req: "optional"}}},
					&Def{Kind: DStruct, Name: holder, File: to.Path, Fields: []*Field{
						{ID: 1, Name: "node", Type: &Type{K: TRef, Ref: &Ref{File: from.Path, Name: alias}}, Req: "optional",
							Default: &Const{K: "map", Pairs: [][2]*Const{{{K: "string", S: "weight"}, {K: "int", I: int64(g.intn(0, 9, "crossw"))}}}}}}})
			}
			if len(cands) > 0 {
				d := cands[g.intn(0, len(cands)-1, "backtarget")]
				g.file = from
				from.Defs = append(from.Defs, &Def{Kind: DTypedef, Name: g.newTypeName(), Target: &Type{K: TRef, Ref: &Ref{File: to.Path, Name: d.Name}}, File: from.Path})
			}
		}
	}
	g.p.Index()
	return g.p
}

func (g *gctx) newTypeName() string {
	name := g.newTypeName1()
	if g.namesByFile == nil {
		g.namesByFile = map[string]map[string]bool{}
	}
	if g.namesByFile[g.file.Path] == nil {
		g.namesByFile[g.file.Path] = map[string]bool{}
	}
	// the same name may be defined in several files (they are different Go packages):
	// reuse a name another file already defines
	if !g.o.UniqueNames && len(g.allTypeNames) > 0 && g.chance(1, 4, "tname_reuse") {
		cand := g.allTypeNames[g.intn(0, len(g.allTypeNames)-1, "tname_reuse_i")]
		if !g.namesByFile[g.file.Path][cand] {
			name = cand
		}
	}
	if !g.namesByFile[g.file.Path][name] {
		g.namesByFile[g.file.Path][name] = true
		g.allTypeNames = append(g.allTypeNames, name)
	}
	return name
}

func (g *gctx) newTypeName1() string {
	g.n++
	if g.o.Hostile && len(g.enumItemNames) > 0 && g.chance(1, 6, "tname_enumitem") {
		// a type named like the Go constant of an enum item (Shape + CIRCLE => ShapeCircle)
		name := g.enumItemNames[g.intn(0, len(g.enumItemNames)-1, "tname_enumitem_i")]
		if !g.namesByFile[g.file.Path][name] {
			return name
		}
	}
	if g.o.Hostile && g.chance(1, g.hostileDen(), "tname_h") {
		name := hostileTypes[g.intn(0, len(hostileTypes)-1, "tname_hi")]
		if g.usedTypeNames == nil {
			g.usedTypeNames = map[string]bool{}
		}
		if g.usedTypeNames[name] && !g.chance(1, 6, "tname_dup") {
			name = fmt.Sprintf("%s%d", name, g.n)
		}
		g.usedTypeNames[name] = true
		return name
	}
	return fmt.Sprintf("%s%d", typeStems[g.n%len(typeStems)], g.n)
}

func (g *gctx) genFile(f *File) {
	small := g.o.Small
	hi := func(n int) int {
		if small && n > 2 {
			return 2
		}
		return n
	}
	add := func(d *Def) {
		d.File = f.Path
		f.Defs = append(f.Defs, d)
		g.pool = append(g.pool, d)
	}
	// a few rounds so that later definitions can reference earlier ones of any kind
	rounds := g.intn(1, hi(3), "rounds")
	for r := 0; r < rounds; r++ {
		for i, n := 0, g.intn(0, hi(2), "nenum"); i < n; i++ {
			add(g.genEnum())
		}
		for i, n := 0, g.intn(0, hi(3), "ntypedef"); i < n; i++ {
			add(g.genTypedef())
		}
		for i, n := 0, g.intn(1, hi(3), "nstruct"); i < n; i++ {
			st := g.genStruct()
			add(st)
			// a REQUIRED field typed by a typedef of a list (or set, map): for the serializers the
			// empty value of such a field is the nil slice / map, whatever name the type goes by
			if st.Kind != DUnion && g.chance(1, 6, "reqtdlist") {
				var tds []*Def
				for _, d := range g.pool {
					if d.Kind == DTypedef && d.Target != nil && (d.Target.K == TList || d.Target.K == TSet || d.Target.K == TMap) && d.Target.Annots == nil {
						tds = append(tds, d)
					}
				}
				var td *Def
				if len(tds) > 0 && g.chance(2, 3, "reqtdlist_reuse") {
					td = tds[g.intn(0, len(tds)-1, "reqtdlist_i")]
				} else {
					td = &Def{Kind: DTypedef, Name: g.newTypeName(), Target: &Type{K: TList, Elem: &Type{K: pickStr(g, baseKinds, "reqtdlist_elem")}}}
					add(td)
				}
				usedNames, usedIDs := map[string]bool{}, map[int]bool{}
				for _, fl := range st.Fields {
					usedNames[GoNameOf(fl.Name, fl.Annots)] = true
					usedNames["name:"+fl.Name] = true
					usedIDs[fl.ID] = true
				}
				st.Fields = append(st.Fields, &Field{ID: g.genFieldID(usedIDs), Name: g.fieldName(usedNames), Type: &Type{K: TRef, Ref: &Ref{File: td.File, Name: td.Name}}, Req: "required"})
			}
			// mutually recursive group: typedef chain over the struct, referenced
			// back from an optional (or container) field of the struct itself
			if g.o.Recursive && st.Kind != DUnion && g.chance(1, 5, "recgroup") {
				last := &Type{K: TRef, Ref: &Ref{File: f.Path, Name: st.Name}}
				// the chain may run through a container of the struct
				overContainer := ""
				switch g.intn(0, 3, "chainbase") {
				case 1:
					last, overContainer = &Type{K: TList, Elem: last}, "list"
				case 2:
					last, overContainer = &Type{K: TMap, Key: &Type{K: TString}, Val: last}, "map"
				}
				for k, n := 0, g.intn(1, 3, "chainlen"); k < n; k++ {
					td := &Def{Kind: DTypedef, Name: g.newTypeName(), Target: last}
					add(td)
					last = &Type{K: TRef, Ref: &Ref{File: f.Path, Name: td.Name}}
				}
				usedNames, usedIDs := map[string]bool{}, map[int]bool{}
				for _, fl := range st.Fields {
					usedNames[GoNameOf(fl.Name, fl.Annots)] = true
					usedNames["name:"+fl.Name] = true
					usedIDs[fl.ID] = true
				}
				ft := last
				switch g.intn(0, 2, "recshape") {
				case 1:
					ft = &Type{K: TList, Elem: last}
				case 2:
					ft = &Type{K: TMap, Key: &Type{K: TString}, Val: last}
				}
				back := &Field{ID: g.genFieldID(usedIDs), Name: g.fieldName(usedNames), Type: ft, Req: "optional"}
				// an (empty) default on the back reference: casting it needs the typedef chain's root
				if g.o.Defaults && ft == last && overContainer != "" && g.chance(1, 2, "backdefault") {
					if overContainer == "list" {
						back.Default = &Const{K: "list"}
					} else {
						back.Default = &Const{K: "map"}
					}
					// ... or the same empty value through a constant of that type: the constant's
					// type reaches the struct whose default names the constant
					if g.o.Consts && g.chance(1, 2, "backdefault_const") {
						g.n++
						cd := &Def{Kind: DConst, Name: fmt.Sprintf("NO_ITEMS_%d", g.n), Type: last, Value: back.Default, File: f.Path}
						add(cd)
						g.consts = append(g.consts, cd)
						back.Default = &Const{K: "ref", Ref: &ConstRef{Target: Ref{File: f.Path, Name: cd.Name}}}
					}
				}
				st.Fields = append(st.Fields, back)
			}
		}
		if g.o.Consts {
			for i, n := 0, g.intn(0, hi(3), "nconst"); i < n; i++ {
				if c := g.genConstDef(); c != nil {
					add(c)
				}
			}
		}
	}
	if g.o.Recursive && g.o.Defaults && g.chance(1, 5, "mutualpair") {
		// two structs that refer to each other; the field closing the cycle has the default {},
		// which stands for a value of the other struct with that struct's own defaults filled in.
		// The other struct's defaulted fields are of builtin types and use literals whose source
		// form differs from the cast form (1 for a double or a bool, hex). (Defaulted fields of
		// named types at that place are known finding K4.)
		a, b := g.newTypeName(), g.newTypeName()
		refA := &Type{K: TRef, Ref: &Ref{File: f.Path, Name: a}}
		refB := &Type{K: TRef, Ref: &Ref{File: f.Path, Name: b}}
		add(&Def{Kind: DStruct, Name: a, Fields: []*Field{
			{ID: 1, Name: "peer", Type: refB, Req: "optional"},
			{ID: 2, Name: "ratio", Type: &Type{K: TDouble}, Req: "optional", Default: &Const{K: "int", I: int64(g.intn(0, 9, "mp_ratio"))}},
			{ID: 3, Name: "flag", Type: &Type{K: TBool}, Req: "optional", Default: &Const{K: "int", I: 1}},
			{ID: 4, Name: "count", Type: &Type{K: TI64}, Req: "optional", Default: &Const{K: "int", I: 7, Spell: "0x7"}},
		}})
		add(&Def{Kind: DStruct, Name: b, Fields: []*Field{
			{ID: 1, Name: "owner", Type: refA, Req: "optional", Default: &Const{K: "map"}},
			{ID: 2, Name: "others", Type: &Type{K: TList, Elem: refA}, Req: "optional"},
		}})
	}
	if g.clusterName != "" {
		g.genCluster(f, add)
	}
	if g.o.TypedefArgs {
		// typedefs of every shape, so that function signatures can name them
		var st, en *Def
		for _, d := range g.pool {
			if d.File == f.Path && d.Kind == DStruct && st == nil {
				st = d
			}
			if d.File == f.Path && d.Kind == DEnum && en == nil {
				en = d
			}
		}
		shapes := []*Type{{K: TBinary}, {K: TString}, {K: TBool}, {K: TI64}, {K: TDouble},
			{K: TList, Elem: &Type{K: TI32}}, {K: TSet, Elem: &Type{K: TString}}, {K: TSet, Elem: &Type{K: TBinary}},
			{K: TMap, Key: &Type{K: TString}, Val: &Type{K: TI64}}, {K: TMap, Key: &Type{K: TBinary}, Val: &Type{K: TList, Elem: &Type{K: TString}}}}
		if st != nil {
			shapes = append(shapes, &Type{K: TRef, Ref: &Ref{File: f.Path, Name: st.Name}},
				&Type{K: TMap, Key: &Type{K: TRef, Ref: &Ref{File: f.Path, Name: st.Name}}, Val: &Type{K: TI32}})
		}
		if en != nil {
			shapes = append(shapes, &Type{K: TRef, Ref: &Ref{File: f.Path, Name: en.Name}})
		}
		var unhashable []*Def
		for _, sh := range shapes {
			if g.chance(2, 3, "tdshape") {
				td := &Def{Kind: DTypedef, Name: g.newTypeName(), Target: sh}
				g.defGoName(td)
				add(td)
				g.sigTypedefs = append(g.sigTypedefs, td)
				switch sh.K {
				case TBinary, TList, TSet, TMap:
					unhashable = append(unhashable, td)
				}
			}
		}
		// containers keyed by a typedef whose target cannot be a Go map key (the representation
		// of the container depends on the ROOT of its key type)
		for _, td := range unhashable {
			ref := &Type{K: TRef, Ref: &Ref{File: f.Path, Name: td.Name}}
			if g.chance(1, 2, "tdkeyed_map") {
				k := &Def{Kind: DTypedef, Name: g.newTypeName(), Target: &Type{K: TMap, Key: ref, Val: &Type{K: TI64}}}
				add(k)
				g.sigTypedefs = append(g.sigTypedefs, k)
			}
			if g.chance(1, 3, "tdkeyed_set") {
				k := &Def{Kind: DTypedef, Name: g.newTypeName(), Target: &Type{K: TSet, Elem: ref}}
				add(k)
				g.sigTypedefs = append(g.sigTypedefs, k)
			}
		}
	}
	if g.o.Services {
		lo, hi2 := 0, 2
		if g.o.MoreServices {
			lo, hi2 = 1, 3
		}
		for i, n := 0, g.intn(lo, hi2, "nsvc"); i < n; i++ {
			add(g.genService())
		}
	}
	// definition order inside a file is irrelevant to Thrift: shuffle
	perm := rapid.Permutation(f.Defs).Draw(g.t, g.label("deforder"))
	f.Defs = perm
}

type clusterConst struct{ file, name, shape string }

// genCluster defines the program-wide shared name in this file (as a struct, an enum or a
// typedef) and a struct naming, inside containers, every definition of that name this file can
// see: its own and those of the files it includes. The generated package then has to tell
// several same-named types of different packages apart.
func (g *gctx) genCluster(f *File, add func(*Def)) {
	own := &Def{Kind: DStruct, Name: g.clusterName}
	// the files of a program tend to define the shared name as the same kind of thing (two
	// exceptions of one name thrown by one function, two structs of one name cast into each other)
	kind := g.intn(0, 4, "cluster_kind")
	if g.clusterKindSet && g.chance(1, 2, "cluster_kind_same") {
		kind = g.clusterKind
	}
	g.clusterKind, g.clusterKindSet = kind, true
	switch kind {
	case 4:
		own.Kind = DException
		own.Fields = []*Field{{ID: 1, Name: "reason", Type: &Type{K: TString}, Req: "optional"}}
	case 0:
		own.Kind = DEnum
		own.Items = []EnumItem{{Name: "FIRST", Value: 0}, {Name: "SECOND", Value: 1}}
	case 1:
		own.Kind = DTypedef
		own.Target = &Type{K: TList, Elem: &Type{K: TString}}
	case 2:
		own.Kind = DTypedef
		own.Target = &Type{K: TI64}
	default:
		own.Fields = []*Field{{ID: 1, Name: "label", Type: &Type{K: TString}, Req: "optional"},
			{ID: 2, Name: "level", Type: &Type{K: TI32}, Req: "optional", Default: &Const{K: "int", I: int64(g.intn(0, 9, "cluster_level"))}}}
		// files are generated from the last to the first and include only later ones: the struct of
		// an including file has every field of the structs of the files it can include, and more
		for j := len(g.p.Files) - 1; j >= 0 && g.p.Files[j] != f; j-- {
			own.Fields = append(own.Fields, &Field{ID: 10 + j, Name: fmt.Sprintf("bonus%d", j), Type: &Type{K: TI32}, Req: "optional", Default: &Const{K: "int", I: int64(j)}})
		}
	}
	if g.namesByFile == nil {
		g.namesByFile = map[string]map[string]bool{}
	}
	if g.namesByFile[f.Path] == nil {
		g.namesByFile[f.Path] = map[string]bool{}
	}
	g.namesByFile[f.Path][own.Name] = true
	add(own)
	// a constant of this file's type of the shared name. Where an included file has a constant
	// of ITS type of that name and the two types have the same shape, this one takes its value
	// from there: the value is cast to this file's type (its defaults, its width), not kept as
	// a value of the other file's type of the same name.
	if g.o.Consts && (own.Kind == DStruct || own.Kind == DTypedef) {
		shape := own.Kind
		if own.Kind == DTypedef {
			shape += ":" + own.Target.K
		}
		var val *Const
		for _, cc := range g.clusterConsts {
			if cc.shape == shape && includes(f, cc.file) && g.chance(2, 3, "cluster_constref") {
				val = &Const{K: "ref", Ref: &ConstRef{Target: Ref{File: cc.file, Name: cc.name}}}
				break
			}
		}
		if val == nil {
			switch shape {
			case DStruct:
				val = &Const{K: "map", Pairs: [][2]*Const{{{K: "string", S: "label"}, {K: "string", S: "x"}}}}
			case DTypedef + ":" + TList:
				val = &Const{K: "list", Items: []*Const{{K: "string", S: "a"}, {K: "string", S: "b"}}}
			default:
				val = &Const{K: "int", I: int64(g.intn(0, 1000, "cluster_constv"))}
			}
		}
		g.n++
		cd := &Def{Kind: DConst, Name: fmt.Sprintf("SHARED_VALUE_%d", g.n), Type: &Type{K: TRef, Ref: &Ref{File: f.Path, Name: own.Name}}, Value: val}
		add(cd)
		g.consts = append(g.consts, cd)
		g.clusterConsts = append(g.clusterConsts, clusterConst{file: f.Path, name: cd.Name, shape: shape})
	}
	user := &Def{Kind: DStruct, Name: g.newTypeName()}
	id := 1
	for _, d := range g.pool {
		if d.Name != g.clusterName {
			continue
		}
		ref := &Type{K: TRef, Ref: &Ref{File: d.File, Name: d.Name}}
		var ft *Type
		switch g.intn(0, 3, "cluster_use") {
		case 0:
			ft = &Type{K: TList, Elem: ref}
		case 1:
			ft = &Type{K: TMap, Key: &Type{K: TString}, Val: ref}
		case 2:
			ft = &Type{K: TList, Elem: &Type{K: TList, Elem: ref}}
		default:
			ft = ref
		}
		user.Fields = append(user.Fields, &Field{ID: id, Name: fmt.Sprintf("shared%d", id), Type: ft, Req: "optional"})
		id++
	}
	// the native type of the same mangled name, in the same containers
	if nk, ok := map[string]string{"String": TString, "Binary": TBinary, "Bool": TBool, "Double": TDouble, "Byte": TI8, "I16": TI16, "I32": TI32, "I64": TI64}[g.clusterName]; ok {
		user.Fields = append(user.Fields,
			&Field{ID: id, Name: fmt.Sprintf("native%d", id), Type: &Type{K: TList, Elem: &Type{K: nk}}, Req: "optional"},
			&Field{ID: id + 1, Name: fmt.Sprintf("native%d", id+1), Type: &Type{K: TMap, Key: &Type{K: TString}, Val: &Type{K: nk}}, Req: "optional"},
			&Field{ID: id + 2, Name: fmt.Sprintf("native%d", id+2), Type: &Type{K: TList, Elem: &Type{K: TList, Elem: &Type{K: nk}}}, Req: "optional"})
	}
	add(user)
	// one function throwing every visible exception of the shared name (different types, same name)
	if g.o.Services {
		fn := &Func{Name: "raiseShared"}
		for _, d := range g.pool {
			if d.Name == g.clusterName && d.Kind == DException {
				fn.Throws = append(fn.Throws, &Field{ID: len(fn.Throws) + 1, Name: fmt.Sprintf("ex%d", len(fn.Throws)+1), Type: &Type{K: TRef, Ref: &Ref{File: d.File, Name: d.Name}}})
			}
		}
		if len(fn.Throws) > 0 {
			g.n++
			add(&Def{Kind: DService, Name: fmt.Sprintf("SvcShared%d", g.n), Funcs: []*Func{fn}})
		}
	}
}

func (g *gctx) genEnum() *Def {
	d := &Def{Kind: DEnum, Name: g.newTypeName()}
	n := g.intn(1, 5, "nitems")
	next := int64(0)
	usedNames := map[string]bool{}
	usedGo := map[string]bool{}
	usedVals := map[int64]bool{}
	for i := 0; i < n; i++ {
		name := pickStr(g, itemStems, "item")
		if usedNames[name] || usedGo[GoConstName(name)] {
			name = fmt.Sprintf("%s_%d", name, i)
		}
		usedNames[name] = true
		usedGo[GoConstName(name)] = true
		it := EnumItem{Name: name}
		if g.chance(1, 2, "explicit") {
			it.Explicit = true
			switch g.intn(0, 5, "valmode") {
			case 0:
				it.Value = int64(rapid.SampledFrom([]int32{0, 1, -1, math.MaxInt32, math.MinInt32, 255, 65536}).Draw(g.t, g.label("edge")))
			case 1:
				it.Value = int64(g.intn(-5, 5, "near"))
			default:
				it.Value = next + int64(g.intn(0, 10, "step"))
			}
			if g.chance(1, 6, "hex") && it.Value >= 0 {
				it.Spell = fmt.Sprintf("0x%x", it.Value)
			}
		} else {
			it.Value = next
		}
		if it.Value > math.MaxInt32 || it.Value < math.MinInt32 {
			it.Value = next
			it.Spell = ""
			it.Explicit = true
		}
		if usedVals[it.Value] {
			// duplicate values are legal Thrift; thriftrw rejects them when another
			// item follows (F6) — steer away only while that defect is open
			if g.o.avoid("F6") || !g.chance(1, 3, "dupval") {
				for usedVals[it.Value] {
					it.Value++
				}
				it.Explicit = true
				it.Spell = ""
				if it.Value > math.MaxInt32 {
					break
				}
			}
		}
		usedVals[it.Value] = true
		g.enumItemNames = append(g.enumItemNames, d.Name+GoConstName(it.Name))
		next = it.Value + 1
		if next > math.MaxInt32 {
			d.Items = append(d.Items, it)
			break
		}
		if g.o.Annotations && g.chance(1, 8, "itemlabel") {
			it.Annots = map[string]string{"go.label": fmt.Sprintf("lbl-%d", i)}
		}
		if g.o.Hostile && g.o.Annotations && len(d.Items) > 0 && g.chance(1, 3, "itemlabel_clash") {
			// a label that is the name (= default label) of an earlier item; with equal values the
			// two are aliases of one constant, which is when a generator is tempted to look at one only
			prev := d.Items[g.intn(0, len(d.Items)-1, "itemlabel_of")]
			it.Annots = map[string]string{"go.label": prev.Name}
			if g.chance(1, 2, "itemlabel_alias") {
				// ... and the value of any earlier item, the same or another one
				other := d.Items[g.intn(0, len(d.Items)-1, "itemlabel_alias_of")]
				it.Value, it.Explicit, it.Spell = other.Value, true, ""
			}
		}
		d.Items = append(d.Items, it)
	}
	d.Annots = g.foreignAnnots(d.Annots, 4)
	g.defGoName(d)
	return d
}

var baseKinds = []string{TBool, TI8, TI16, TI32, TI64, TDouble, TString, TBinary}

// genType draws a type expression over the visible definitions.
func (g *gctx) genType(depth int, allowStruct bool) *Type {
	mode := g.intn(0, 9, "tmode")
	switch {
	case mode <= 3 || depth <= 0 && mode <= 6:
		return g.typeAnnots(&Type{K: pickStr(g, baseKinds, "base")}, 5)
	case mode <= 6 && depth > 0:
		switch g.intn(0, 2, "ckind") {
		case 0:
			return g.typeAnnots(&Type{K: TList, Elem: g.genType(depth-1, allowStruct)}, 4)
		case 1:
			t := &Type{K: TSet, Elem: g.genType(depth-1, allowStruct)}
			if g.o.Annotations && g.chance(1, 4, "slice") {
				// only the exact value "slice" changes the representation; any other value leaves a map
				t.Annots = map[string]string{"go.type": "slice"}
				if g.chance(1, 3, "slice_other") {
					t.Annots["go.type"] = pickStr(g, []string{"map", "Slice", "SLICE", "", "list", "slice "}, "slice_val")
				}
			}
			return g.typeAnnots(t, 4)
		default:
			return g.typeAnnots(&Type{K: TMap, Key: g.genType(depth-1, allowStruct), Val: g.genType(depth-1, allowStruct)}, 4)
		}
	default:
		var cands []*Def
		for _, d := range g.pool {
			switch d.Kind {
			case DEnum, DTypedef:
				cands = append(cands, d)
			case DStruct, DUnion, DException:
				if allowStruct {
					cands = append(cands, d)
				}
			}
		}
		if len(cands) == 0 {
			return &Type{K: pickStr(g, baseKinds, "base")}
		}
		d := cands[g.intn(0, len(cands)-1, "named")]
		return &Type{K: TRef, Ref: &Ref{File: d.File, Name: d.Name}}
	}
}

func (g *gctx) genTypedef() *Def {
	d := &Def{Kind: DTypedef, Name: g.newTypeName(), Target: g.genType(2, true)}
	d.Annots = g.foreignAnnots(d.Annots, 3)
	g.defGoName(d)
	return d
}

// foreignKeys are annotation keys thriftrw gives no meaning to.
var foreignKeys = []string{"validate.format", "validate.max", "owner", "py.immutable", "cpp.type", "java.swift.mutable", "x", "deprecated", "pii"}
var foreignVals = []string{"hex", "10", "", "team-a", "std::string", "true", "\x00", "\x00", "with \"quotes\""}

// foreignAnnots adds, one time in den when TypeAnnots is set, one or two annotations of other
// tools to a.
func (g *gctx) foreignAnnots(a map[string]string, den int) map[string]string {
	if !g.o.TypeAnnots || !g.chance(1, den, "foreign_annots") {
		return a
	}
	if a == nil {
		a = map[string]string{}
	}
	for i, n := 0, g.intn(1, 2, "foreign_n"); i < n; i++ {
		a[foreignKeys[g.intn(0, len(foreignKeys)-1, "foreign_k")]] = foreignVals[g.intn(0, len(foreignVals)-1, "foreign_v")]
	}
	return a
}

// typeAnnots puts foreign annotations on a base or container type expression.
func (g *gctx) typeAnnots(t *Type, den int) *Type {
	t.Annots = g.foreignAnnots(t.Annots, den)
	return t
}

// defGoName gives, one time in three when DefGoNames is set, the definition a go.name
// annotation. The new name cannot clash: Thrift names are unique per file, none of the pool
// starts with "Go" / "Renamed" / "X" or ends in "Go" / "T", and enum items are <Enum><Item>.
func (g *gctx) defGoName(d *Def) {
	den := 3
	if d.Kind == DEnum {
		den = 2 // the plugin description of an enum is built by a branch of its own
	}
	if !g.o.DefGoNames || g.o.Hostile || !g.chance(1, den, "def_goname") {
		return
	}
	if d.Annots == nil {
		d.Annots = map[string]string{}
	}
	switch g.intn(0, 3, "def_goname_style") {
	case 0:
		d.Annots["go.name"] = "Go" + d.Name
	case 1:
		d.Annots["go.name"] = d.Name + "Go"
	case 2:
		d.Annots["go.name"] = "Renamed" + d.Name
	default:
		d.Annots["go.name"] = "X" + d.Name + "T"
	}
}

// structOnlyStems are legal in structs and unions but reserved in exceptions (Error, ErrorName methods).
var structOnlyStems = []string{"error_name", "error", "errorName", "error_code"}

func (g *gctx) fieldName(used map[string]bool) string {
	for {
		name := pickStr(g, fieldStems, "fname")
		if g.structOnlyOK && !g.o.Hostile && g.chance(1, 10, "fname_structonly") {
			name = structOnlyStems[g.intn(0, len(structOnlyStems)-1, "fname_so")]
		}
		if g.chance(1, 3, "fsuffix") {
			name = fmt.Sprintf("%s%d", name, g.intn(2, 9, "fsuf"))
		}
		gn := GoName(name)
		if g.o.Hostile && !used["name:"+name] && g.chance(1, 4, "fcollide") {
			// exact duplicates of Thrift names are invalid IDL; Go-name collisions are what the generator must reject
			used[gn] = true
			used["name:"+name] = true
			return name
		}
		if !used[gn] && !used["name:"+name] {
			used[gn] = true
			used["name:"+name] = true
			return name
		}
	}
}

func (g *gctx) genFieldID(used map[int]bool) int {
	for {
		var id int
		mode := g.intn(0, 9, "idmode")
		if !(g.o.NonStrict && g.negIDsOK) && (mode == 1 || mode == 2) {
			mode = 9 // negative ids: fields of structs, unions and exceptions in non-strict mode only
		}
		switch mode {
		case 0:
			id = rapid.SampledFrom([]int{1, 32767, 255, 256, 1000}).Draw(g.t, g.label("idedge"))
		case 1:
			// negative ids are legal in non-strict mode
			id = rapid.SampledFrom([]int{-1, -2, -255, -256, -32768}).Draw(g.t, g.label("idnegedge"))
		case 2:
			id = -g.intn(1, 12, "idneg")
		default:
			id = g.intn(1, 12, "id")
		}
		if !used[id] {
			used[id] = true
			return id
		}
	}
}

func (g *gctx) genStruct() *Def {
	kind := DStruct
	switch g.intn(0, 5, "skind") {
	case 0:
		kind = DUnion
	case 1:
		kind = DException
	}
	d := &Def{Kind: kind, Name: g.newTypeName()}
	g.structOnlyOK = kind != DException
	g.negIDsOK = true
	defer func() { g.structOnlyOK, g.negIDsOK = false, false }()
	n := g.intn(0, 6, "nfields")
	if kind == DUnion && n == 0 {
		n = 1
	}
	usedNames := map[string]bool{}
	usedIDs := map[int]bool{}
	for i := 0; i < n; i++ {
		f := &Field{ID: g.genFieldID(usedIDs), Name: g.fieldName(usedNames), Type: g.genType(2, true)}
		// self reference (recursive type) through an optional field or a container
		selfRef := false
		if g.o.Recursive && g.chance(1, 12, "selfref") {
			self := &Type{K: TRef, Ref: &Ref{File: g.file.Path, Name: d.Name}}
			if kind == DUnion || g.chance(1, 2, "selflist") {
				// a union member of the union's own type is only inhabited through a container
				f.Type = &Type{K: TList, Elem: self}
			} else {
				f.Type = self
				selfRef = true
			}
		}
		switch {
		case kind == DUnion:
			if g.chance(1, 2, "uopt") {
				f.Req = "optional"
			}
		case selfRef:
			f.Req = "optional"
		default:
			switch g.intn(0, 2, "req") {
			case 0:
				f.Req = "required"
			default:
				f.Req = "optional"
			}
			if g.o.NonStrict && g.chance(1, 4, "noreq") {
				f.Req = ""
			}
		}
		if g.o.Defaults && kind != DUnion && !selfRef && g.chance(1, 3, "hasdefault") {
			f.Default = g.genConst(f.Type, 2)
		}
		if g.o.Annotations {
			g.fieldAnnots(f, usedNames)
		}
		d.Fields = append(d.Fields, f)
	}
	// a field called like an accessor that is NOT generated: required fields of primitive type
	// have no IsSet<Field> method, so a sibling is_set_<field> is an ordinary, legal field
	if kind != DUnion && !g.o.Hostile && g.chance(1, 6, "issetsibling") {
		for _, x := range d.Fields {
			if x.Req == "required" && x.Default == nil && x.Annots == nil && x.Type != nil {
				switch x.Type.K {
				case TBool, TI8, TI16, TI32, TI64, TDouble, TString:
					name := "is_set_" + x.Name
					if !usedNames["name:"+name] && !usedNames[GoName(name)] {
						usedNames["name:"+name], usedNames[GoName(name)] = true, true
						d.Fields = append(d.Fields, &Field{ID: g.genFieldID(usedIDs), Name: name, Type: &Type{K: TBool}, Req: "optional"})
					}
				}
				break
			}
		}
	}
	d.Annots = g.foreignAnnots(d.Annots, 4)
	g.defGoName(d)
	return d
}

// flagValues are the values go.redact / go.nolog are written with besides the bare form. Both
// annotations work by PRESENCE (gen/field.go shouldRedact, gen/zap.go zapOptOut: `_, ok :=
// spec.Annotations[...]`; the documentation only shows the bare form), so a field is redacted
// / kept out of the logs whatever the value says: a data class ("pii"), an affirmative word, a
// boolean literal, nothing. Values a boolean parser reads as false ("false", "0", "f", "no",
// "off") are deliberately NOT generated: on the unchanged tree they redact as well, but a
// reader may take them for "not annotated", and the property speaks of annotated fields.
var flagValues = []string{"", "true", "1", "pii", "yes", "secret", "credentials", "on", "TRUE", "T", "gdpr", "email address"}

// flagValue draws how a presence annotation is written: bare half of the time ("\x00", see
// annots), otherwise with one of flagValues.
func (g *gctx) flagValue(what string) string {
	if g.chance(1, 2, what+"_bare") {
		return "\x00"
	}
	return flagValues[g.intn(0, len(flagValues)-1, what+"_value")]
}

func (g *gctx) fieldAnnots(f *Field, usedGo map[string]bool) {
	a := map[string]string{}
	if g.chance(1, 8, "goname") {
		n := fmt.Sprintf("Renamed%s", GoName(f.Name))
		if !usedGo[n] {
			usedGo[n] = true
			a["go.name"] = n
		}
	}
	if g.chance(1, 8, "golabel") {
		a["go.label"] = "lbl_" + f.Name
	}
	rr, nr := 6, 8
	if g.o.RedactRate > 0 {
		rr, nr = g.o.RedactRate, 2*g.o.RedactRate
	}
	if g.chance(1, rr, "redact") {
		a["go.redact"] = g.flagValue("redact")
	}
	if g.chance(1, nr, "nolog") {
		a["go.nolog"] = g.flagValue("nolog")
	}
	if g.chance(1, 10, "gotag") {
		a["go.tag"] = `foo:"bar"`
	}
	if len(a) > 0 {
		f.Annots = a
	}
}

// genConst draws a constant expression that is valid for type t, or nil when
// the type has no literal form (binary, or a struct requiring one).
func (g *gctx) genConst(t *Type, depth int) *Const { return g.genConstC(t, depth, false) }

// genConstC: canon forces canonical spellings (no int->double / 0,1->bool / enum-by-value casts, no constant references) so that set elements and map keys can be compared for duplicates syntactically.
func (g *gctx) genConstC(t *Type, depth int, canon bool) *Const {
	p := g.p
	p.Index()
	// include the current file's own (not yet indexed) definitions
	r := g.root(t)
	// typedef of struct / container default: emits uncompilable Go on the pinned tree (F7)
	if t.K == TRef && (r.K == TList || r.K == TSet || r.K == TMap || (r.K == TRef && g.lookup(*r.Ref).IsStructLike())) {
		if g.o.avoid("F7") {
			return nil
		}
	}
	// reference to an existing constant of exactly this type spelling
	if !canon && g.chance(1, 3, "constref") {
		for _, c := range g.consts {
			if sameType(c.Type, t) && (c.File == g.file.Path || includes(g.file, c.File)) {
				return &Const{K: "ref", Ref: &ConstRef{Target: Ref{File: c.File, Name: c.Name}}}
			}
		}
	}
	switch r.K {
	case TBool:
		if !canon && g.chance(1, 4, "boolint") {
			return &Const{K: "int", I: int64(g.intn(0, 1, "b01"))}
		}
		return &Const{K: "bool", B: g.chance(1, 2, "bool")}
	case TI8, TI16, TI32, TI64:
		lo, hi := IntRange(r.K)
		var v int64
		switch g.intn(0, 3, "imode") {
		case 0:
			v = rapid.SampledFrom([]int64{lo, hi, 0, -1, 1}).Draw(g.t, g.label("iedge"))
		default:
			v = rapid.Int64Range(lo, hi).Draw(g.t, g.label("ival"))
		}
		c := &Const{K: "int", I: v}
		if v >= 0 && g.chance(1, 5, "hex") {
			c.Spell = fmt.Sprintf("0x%x", v)
		}
		return c
	case TDouble:
		if !canon && g.chance(1, 4, "dint") {
			return &Const{K: "int", I: int64(g.intn(-100, 100, "dintv"))}
		}
		f := rapid.SampledFrom([]float64{0, 1.5, -2.25, 1e10, 3.141592653589793, -0.001, 123456.789, 1e-7}).Draw(g.t, g.label("dval"))
		return &Const{K: "double", F: f}
	case TString:
		return &Const{K: "string", S: rapid.SampledFrom([]string{"", "hello", "with \"quotes\"", "tab\there", "back\\slash", "ünï", "it's"}).Draw(g.t, g.label("sval"))}
	case TBinary:
		return nil
	case TList, TSet:
		if depth <= 0 {
			return &Const{K: "list"}
		}
		c := &Const{K: "list"}
		n := g.intn(0, 3, "clen")
		for i := 0; i < n; i++ {
			e := g.genConstC(r.Elem, depth-1, canon || r.K == TSet)
			if e == nil {
				return &Const{K: "list"}
			}
			if r.K == TSet && constIn(c.Items, e) {
				continue
			}
			c.Items = append(c.Items, e)
		}
		return c
	case TMap:
		c := &Const{K: "map"}
		if depth <= 0 {
			return c
		}
		n := g.intn(0, 3, "mlen")
		for i := 0; i < n; i++ {
			k := g.genConstC(r.Key, depth-1, true)
			v := g.genConstC(r.Val, depth-1, canon)
			if k == nil || v == nil {
				return &Const{K: "map"}
			}
			dup := false
			for _, pr := range c.Pairs {
				if constEq(pr[0], k) {
					dup = true
				}
			}
			if !dup {
				c.Pairs = append(c.Pairs, [2]*Const{k, v})
			}
		}
		return c
	case TRef:
		d := g.lookup(*r.Ref)
		if d == nil {
			return nil
		}
		if d.Kind == DEnum {
			it := d.Items[g.intn(0, len(d.Items)-1, "eitem")]
			visible := d.File == g.file.Path || includes(g.file, d.File)
			if !visible || (!canon && g.chance(1, 3, "ebyvalue")) {
				// an enum defined in a file this one does not include can only be written by value
				return &Const{K: "int", I: it.Value}
			}
			return &Const{K: "ref", I: it.Value, Ref: &ConstRef{Target: Ref{File: d.File, Name: d.Name}, Item: it.Name}}
		}
		if d.Kind == DUnion {
			// a union literal must set exactly one member
			if len(d.Fields) == 0 || depth <= 0 {
				return nil
			}
			f := d.Fields[g.intn(0, len(d.Fields)-1, "umember")]
			v := g.genConstC(f.Type, depth-1, canon)
			if v == nil {
				return nil
			}
			return &Const{K: "map", Pairs: [][2]*Const{{{K: "string", S: f.Name}, v}}}
		}
		c := &Const{K: "map"}
		for _, f := range d.Fields {
			need := f.Required()
			if !need && !g.chance(1, 2, "sfield") {
				continue
			}
			if depth <= 0 && !need {
				continue
			}
			v := g.genConstC(f.Type, depth-1, canon)
			if v == nil {
				if need {
					return nil
				}
				continue
			}
			c.Pairs = append(c.Pairs, [2]*Const{{K: "string", S: f.Name}, v})
		}
		return c
	}
	return nil
}

// root / lookup see the definitions of the file under construction too.
func (g *gctx) lookup(r Ref) *Def {
	for _, d := range g.pool {
		if d.File == r.File && d.Name == r.Name {
			return d
		}
	}
	if d := g.p.Lookup(r); d != nil {
		return d
	}
	return nil
}

func (g *gctx) root(t *Type) *Type {
	for i := 0; i < 100; i++ {
		if t.K != TRef {
			return t
		}
		d := g.lookup(*t.Ref)
		if d == nil || d.Kind != DTypedef {
			return t
		}
		t = d.Target
	}
	return t
}

func includes(f *File, path string) bool {
	for _, i := range f.Includes {
		if i == path {
			return true
		}
	}
	return false
}

func sameType(a, b *Type) bool {
	if a == nil || b == nil {
		return a == b
	}
	if a.K != b.K {
		return false
	}
	switch a.K {
	case TList, TSet:
		return sameType(a.Elem, b.Elem)
	case TMap:
		return sameType(a.Key, b.Key) && sameType(a.Val, b.Val)
	case TRef:
		return *a.Ref == *b.Ref
	}
	return true
}

func constEq(a, b *Const) bool {
	return fmt.Sprintf("%+v", flat(a)) == fmt.Sprintf("%+v", flat(b))
}

func flat(c *Const) string {
	if c == nil {
		return "nil"
	}
	var sb strings.Builder
	fmt.Fprintf(&sb, "%s|%d|%v|%v|%q|", c.K, c.I, c.F, c.B, c.S)
	if c.K == "bool" {
		return fmt.Sprintf("bool|%v", c.B)
	}
	if c.K == "int" {
		return fmt.Sprintf("num|%d", c.I)
	}
	if c.K == "double" {
		return fmt.Sprintf("num|%v", c.F)
	}
	if c.K == "ref" && c.Ref != nil && c.Ref.Item != "" {
		return fmt.Sprintf("enum|%s|%d", c.Ref.Target.Key(), c.I)
	}
	for _, i := range c.Items {
		sb.WriteString(flat(i) + ",")
	}
	for _, p := range c.Pairs {
		sb.WriteString(flat(p[0]) + ":" + flat(p[1]) + ",")
	}
	if c.Ref != nil {
		sb.WriteString(c.Ref.Target.Key() + "." + c.Ref.Item)
	}
	return sb.String()
}

func constIn(cs []*Const, c *Const) bool {
	for _, x := range cs {
		if constEq(x, c) {
			return true
		}
	}
	return false
}

// nameable: every definition the type mentions can be named from the current file (its own
// or one of a file it includes).
func (g *gctx) nameable(t *Type) bool {
	if t == nil {
		return true
	}
	if t.K == TRef && t.Ref != nil && t.Ref.File != g.file.Path && !includes(g.file, t.Ref.File) {
		return false
	}
	return g.nameable(t.Elem) && g.nameable(t.Key) && g.nameable(t.Val)
}

func (g *gctx) genConstDef() *Def {
	t := g.genType(2, true)
	// constants come in families of one type (an enum, a typedef, a container), the later ones
	// naming the earlier ones: take the type of a visible constant
	if g.chance(1, 3, "const_sametype") {
		var vis []*Def
		for _, c := range g.consts {
			if c.File == g.file.Path || includes(g.file, c.File) {
				vis = append(vis, c)
			}
		}
		if len(vis) > 0 {
			if ct := vis[g.intn(0, len(vis)-1, "const_sametype_i")].Type; g.nameable(ct) {
				t = ct
			}
		}
	} else if g.chance(1, 3, "const_named_type") {
		// a constant of an enum or typedef type (named types are referenced, never inlined)
		var named []*Def
		for _, d := range g.pool {
			if d.Kind == DEnum || (d.Kind == DTypedef && d.Target != nil && d.Target.K != TRef && d.Target.K != TList && d.Target.K != TSet && d.Target.K != TMap && d.Target.K != TBinary) {
				named = append(named, d)
			}
		}
		if len(named) > 0 {
			d := named[g.intn(0, len(named)-1, "const_named_i")]
			t = &Type{K: TRef, Ref: &Ref{File: d.File, Name: d.Name}}
		}
	}
	v := g.genConst(t, 3)
	if v == nil {
		return nil
	}
	g.n++
	name := fmt.Sprintf("%s_%d", rapid.SampledFrom([]string{"DEFAULT", "kMax", "some_const", "LIMIT_VALUE", "Answer"}).Draw(g.t, g.label("cname")), g.n)
	if g.chance(1, 3, "cname_oneword") {
		// one word without digits or underscores: MAXQK, Fallbackqk, limitqk (the Go name of a
		// constant that is a single ALL-CAPS word follows a rule of its own)
		suffix := ""
		for k := g.n; k > 0; k /= 26 {
			suffix += string(rune('a' + k%26))
		}
		switch g.intn(0, 2, "cname_style") {
		case 0:
			name = rapid.SampledFrom([]string{"MAX", "DEFAULT", "FALLBACK"}).Draw(g.t, g.label("cname1")) + strings.ToUpper(suffix)
		case 1:
			name = rapid.SampledFrom([]string{"Fallback", "Limit"}).Draw(g.t, g.label("cname2")) + suffix
		default:
			name = rapid.SampledFrom([]string{"limit", "maxQPS"}).Draw(g.t, g.label("cname3")) + suffix
		}
	}
	d := &Def{Kind: DConst, Name: name, Type: t, Value: v, File: g.file.Path}
	g.consts = append(g.consts, d)
	return d
}

// sigType draws a type for a parameter / return value.
func (g *gctx) sigType() *Type {
	if g.o.TypedefArgs && g.chance(1, 2, "sig_td") {
		var vis []*Def
		for _, td := range g.sigTypedefs {
			if td.File == g.file.Path || includes(g.file, td.File) {
				vis = append(vis, td)
			}
		}
		if len(vis) > 0 {
			td := vis[g.intn(0, len(vis)-1, "sig_tdi")]
			return &Type{K: TRef, Ref: &Ref{File: td.File, Name: td.Name}}
		}
	}
	if g.o.TypedefArgs && g.chance(1, 6, "sig_enum") {
		// an enum named directly, or as the element / key / value of a container
		var ens []*Def
		for _, d := range g.pool {
			if d.Kind == DEnum {
				ens = append(ens, d)
			}
		}
		if len(ens) > 0 {
			d := ens[g.intn(0, len(ens)-1, "sig_enum_i")]
			en := &Type{K: TRef, Ref: &Ref{File: d.File, Name: d.Name}}
			switch g.intn(0, 6, "sig_enum_shape") {
			case 0:
				return &Type{K: TList, Elem: en}
			case 1:
				return &Type{K: TSet, Elem: en}
			case 2:
				return &Type{K: TMap, Key: en, Val: g.genType(1, true)}
			case 3:
				return &Type{K: TMap, Key: &Type{K: TString}, Val: en}
			case 4:
				return &Type{K: TList, Elem: &Type{K: TList, Elem: en}}
			default:
				return en
			}
		}
	}
	return g.genType(2, true)
}

func (g *gctx) genService() *Def {
	g.n++
	d := &Def{Kind: DService, Name: fmt.Sprintf("Svc%s%d", typeStems[g.n%len(typeStems)], g.n)}
	// inheritance from a visible service (same file or included)
	var parents []*Def
	for _, s := range g.pool {
		if s.Kind == DService {
			parents = append(parents, s)
		}
	}
	if len(parents) > 0 && g.chance(1, 2, "extends") {
		par := parents[g.intn(0, len(parents)-1, "parent")]
		d.Parent = &Ref{File: par.File, Name: par.Name}
	}
	if g.sameBaseRun {
		// chains of services across same-named files: a request for one file then carries
		// ancestors (and their types) from several packages of one base name
		var twins []*Def
		for _, s := range parents {
			if s.File != g.file.Path && IncludeName(s.File) == IncludeName(g.file.Path) {
				twins = append(twins, s)
			}
		}
		if len(twins) > 0 && g.chance(2, 3, "extends_twin") {
			par := twins[g.intn(0, len(twins)-1, "parent_twin")]
			d.Parent = &Ref{File: par.File, Name: par.Name}
		}
	}
	usedFn := map[string]bool{}
	for i, n := 0, g.intn(0, 4, "nfuncs"); i < n; i++ {
		name := pickStr(g, funcStems, "fn")
		if usedFn[GoName(name)] {
			name = fmt.Sprintf("%s%d", name, i)
		}
		usedFn[GoName(name)] = true
		fn := &Func{Name: name}
		usedNames := map[string]bool{}
		usedIDs := map[int]bool{}
		for j, na := 0, g.intn(0, 3, "nargs"); j < na; j++ {
			a := &Field{ID: g.genFieldID(usedIDs), Name: g.fieldName(usedNames), Type: g.sigType()}
			switch g.intn(0, 3, "areq") {
			case 0:
				a.Req = "required"
			case 1:
				a.Req = "optional"
			}
			// a default value on the argument (every literal form struct fields get): the
			// argument then is never a required one, whatever its declared requiredness
			// (`2: i32 limit = 100`, `1: optional Color c = Color.RED`, `3: required string s = "x"`)
			if g.o.Defaults && g.chance(1, 3, "arg_hasdefault") && (a.Req != "required" || g.chance(1, 3, "arg_reqdefault")) {
				a.Default = g.genConst(a.Type, 2)
			}
			if g.o.Annotations && g.chance(1, 4, "argannot") {
				g.fieldAnnots(a, usedNames)
			}
			fn.Args = append(fn.Args, a)
		}
		if g.chance(1, 5, "oneway") {
			fn.OneWay = true
		} else {
			if g.chance(2, 3, "hasret") {
				fn.Ret = g.sigType()
			}
			var excs []*Def
			for _, e := range g.pool {
				if e.Kind == DException {
					excs = append(excs, e)
				}
			}
			usedT := map[string]bool{}
			usedEIDs := map[int]bool{}
			usedExc := map[string]bool{}
			for j, ne := 0, g.intn(0, 2, "nexc"); j < ne && len(excs) > 0; j++ {
				e := excs[g.intn(0, len(excs)-1, "exc")]
				// two exceptions of the same type cannot be told apart by the Go type switch
				// of the generated helpers: such a function cannot be mapped to valid Go, so it
				// belongs to the hostile pool only (must be rejected at generation time, F20)
				if usedExc[e.File+"#"+e.Name] && (!g.o.Hostile || !g.chance(1, 4, "excdup")) {
					continue
				}
				usedExc[e.File+"#"+e.Name] = true
				th := &Field{ID: g.genFieldID(usedEIDs), Name: g.fieldName(usedT), Type: &Type{K: TRef, Ref: &Ref{File: e.File, Name: e.Name}}}
				if g.o.Annotations && g.chance(1, 4, "excannot") {
					g.fieldAnnots(th, usedT)
				}
				fn.Throws = append(fn.Throws, th)
			}
		}
		d.Funcs = append(d.Funcs, fn)
	}
	return d
}

// Invalidate applies one drawn invalidating edit to p (typedef cycle, dangling
// type / constant / service reference, duplicate definition name) and returns
// its name. The program is modified in place.
func Invalidate(t *rapid.T, p *Program) string {
	p.Index()
	f := p.Files[rapid.IntRange(0, len(p.Files)-1).Draw(t, "inv_file")]
	var typedefs, structs []*Def
	for _, d := range f.Defs {
		switch d.Kind {
		case DTypedef:
			typedefs = append(typedefs, d)
		case DStruct, DException:
			structs = append(structs, d)
		}
	}
	switch rapid.IntRange(0, 5).Draw(t, "inv_kind") {
	case 0: // typedef cycle of length 1..3
		n := rapid.IntRange(1, 3).Draw(t, "cyclelen")
		names := make([]string, n)
		for i := range names {
			names[i] = fmt.Sprintf("Cyc%d", i)
		}
		for i := range names {
			f.Defs = append(f.Defs, &Def{Kind: DTypedef, Name: names[i], Target: &Type{K: TRef, Ref: &Ref{File: f.Path, Name: names[(i+1)%n]}}, File: f.Path})
		}
		p.Index()
		return fmt.Sprintf("typedef-cycle-%d", n)
	case 1: // dangling type reference in a struct field
		if len(structs) > 0 {
			s := structs[rapid.IntRange(0, len(structs)-1).Draw(t, "inv_struct")]
			s.Fields = append(s.Fields, &Field{ID: 31000, Name: "dangling_field", Req: "optional", Type: &Type{K: TRef, Ref: &Ref{File: f.Path, Name: "NoSuchType"}}})
			return "dangling-type"
		}
	case 2: // dangling include-qualified reference
		f.Defs = append(f.Defs, &Def{Kind: DTypedef, Name: "BadQualified", Target: &Type{K: TRef, Ref: &Ref{File: "nowhere/ghost.thrift", Name: "Thing"}}, File: f.Path})
		p.Index()
		return "dangling-qualified-type"
	case 3: // dangling constant reference
		f.Defs = append(f.Defs, &Def{Kind: DConst, Name: "BAD_CONST_REF", Type: &Type{K: TI32}, Value: &Const{K: "ref", Ref: &ConstRef{Target: Ref{File: f.Path, Name: "NO_SUCH_CONST"}}}, File: f.Path})
		p.Index()
		return "dangling-constant"
	case 4: // service extending a missing service
		f.Defs = append(f.Defs, &Def{Kind: DService, Name: "BadChild", Parent: &Ref{File: f.Path, Name: "NoSuchService"}, File: f.Path})
		p.Index()
		return "dangling-service-parent"
	case 5: // constant of the wrong type
		f.Defs = append(f.Defs, &Def{Kind: DConst, Name: "BAD_CAST", Type: &Type{K: TList, Elem: &Type{K: TI32}}, Value: &Const{K: "string", S: "not a list"}, File: f.Path})
		p.Index()
		return "bad-constant-cast"
	}
	// fallback: duplicate definition name
	f.Defs = append(f.Defs, &Def{Kind: DTypedef, Name: "DupName", Target: &Type{K: TI32}, File: f.Path}, &Def{Kind: DTypedef, Name: "DupName", Target: &Type{K: TI64}, File: f.Path})
	return "duplicate-name"
}
