// Package idlmodel is an independent model of Thrift programs: files,
// includes, definitions, types, constants, services and annotations, with a
// renderer to .thrift text, constructive rapid generators, and reference
// semantics (name resolution is by construction; typedef roots, wire kinds,
// constant evaluation/casting, default filling, schema projection, Go naming).
// It does not import thriftrw.
package idlmodel

import (
	"fmt"
	"path"
	"sort"
	"strings"
)

// Type kinds.
const (
	TBool   = "bool"
	TI8     = "i8"
	TI16    = "i16"
	TI32    = "i32"
	TI64    = "i64"
	TDouble = "double"
	TString = "string"
	TBinary = "binary"
	TList   = "list"
	TSet    = "set"
	TMap    = "map"
	TRef    = "ref"
)

// Definition kinds.
const (
	DTypedef   = "typedef"
	DEnum      = "enum"
	DStruct    = "struct"
	DUnion     = "union"
	DException = "exception"
	DConst     = "const"
	DService   = "service"
)

// Ref names a definition: the file that defines it and its Thrift name.
type Ref struct {
	File string `json:"file"`
	Name string `json:"name"`
}

func (r Ref) Key() string { return r.File + "#" + r.Name }

// Type is a type expression.
type Type struct {
	K      string            `json:"k"`
	Elem   *Type             `json:"elem,omitempty"` // list / set element
	Key    *Type             `json:"key,omitempty"`  // map key
	Val    *Type             `json:"val,omitempty"`  // map value
	Ref    *Ref              `json:"ref,omitempty"`  // named type
	Annots map[string]string `json:"annots,omitempty"`
}

// EnumItem is one enum member.
type EnumItem struct {
	Name     string            `json:"name"`
	Explicit bool              `json:"explicit"` // value written in the source
	Value    int64             `json:"value"`    // effective value
	Spell    string            `json:"spell,omitempty"`
	Annots   map[string]string `json:"annots,omitempty"`
}

// Const is a constant value expression.
type Const struct {
	K     string      `json:"k"` // int double bool string list map ref
	I     int64       `json:"i,omitempty"`
	F     float64     `json:"f,omitempty"`
	B     bool        `json:"b,omitempty"`
	S     string      `json:"s,omitempty"`
	Items []*Const    `json:"items,omitempty"`
	Pairs [][2]*Const `json:"pairs,omitempty"`
	Ref   *ConstRef   `json:"ref,omitempty"`
	Spell string      `json:"spell,omitempty"` // exact source spelling for numbers (hex, sign, exponent)
}

// ConstRef refers to a constant or an enum item.
type ConstRef struct {
	Target Ref    `json:"target"`         // the constant, or the enum
	Item   string `json:"item,omitempty"` // enum item name (then Target is the enum)
}

// Field is a struct field, function parameter or exception of a function.
type Field struct {
	ID      int               `json:"id"`
	NoID    bool              `json:"noid,omitempty"` // id not written in the source
	IDSpell string            `json:"idspell,omitempty"`
	Name    string            `json:"name"`
	Type    *Type             `json:"type"`
	Req     string            `json:"req"` // "required" | "optional" | ""
	Default *Const            `json:"default,omitempty"`
	Annots  map[string]string `json:"annots,omitempty"`
}

// Func is a service function.
type Func struct {
	Name   string            `json:"name"`
	OneWay bool              `json:"oneway,omitempty"`
	Ret    *Type             `json:"ret,omitempty"` // nil = void
	Args   []*Field          `json:"args"`
	Throws []*Field          `json:"throws,omitempty"`
	Annots map[string]string `json:"annots,omitempty"`
}

// Def is one top-level definition.
type Def struct {
	Kind   string            `json:"kind"`
	Name   string            `json:"name"`
	Target *Type             `json:"target,omitempty"` // typedef
	Items  []EnumItem        `json:"items,omitempty"`  // enum
	Fields []*Field          `json:"fields,omitempty"` // struct-like
	Type   *Type             `json:"type,omitempty"`   // const
	Value  *Const            `json:"value,omitempty"`  // const
	Parent *Ref              `json:"parent,omitempty"` // service
	Funcs  []*Func           `json:"funcs,omitempty"`  // service
	Annots map[string]string `json:"annots,omitempty"`
	File   string            `json:"file"` // defining file (path)
}

// File is one .thrift file.
type File struct {
	Path     string   `json:"path"`     // slash-separated, relative to the thrift root
	Includes []string `json:"includes"` // paths of included files
	Defs     []*Def   `json:"defs"`
	// Raw, when non-empty, replaces the rendering of this file (used by
	// properties that feed hand-shaped or invalid text).
	Raw string `json:"raw,omitempty"`
}

// Program is a set of files; Files[0] is the entry point.
type Program struct {
	Files     []*File `json:"files"`
	NonStrict bool    `json:"non_strict,omitempty"`

	idx map[string]*Def
	fdx map[string]*File
}

// Index (re)builds the lookup tables.
func (p *Program) Index() {
	p.idx = map[string]*Def{}
	p.fdx = map[string]*File{}
	for _, f := range p.Files {
		p.fdx[f.Path] = f
		for _, d := range f.Defs {
			d.File = f.Path
			p.idx[f.Path+"#"+d.Name] = d
		}
	}
}

// Lookup resolves a reference.
func (p *Program) Lookup(r Ref) *Def {
	if p.idx == nil {
		p.Index()
	}
	return p.idx[r.Key()]
}

// FileOf returns the file with the given path.
func (p *Program) FileOf(path string) *File {
	if p.fdx == nil {
		p.Index()
	}
	return p.fdx[path]
}

// IncludeName is the name under which an included file is visible.
func IncludeName(p string) string {
	return strings.TrimSuffix(path.Base(p), ".thrift")
}

// relInclude renders the include path of target relative to the including file.
func relInclude(from, target string) string {
	fd := path.Dir(from)
	td := path.Dir(target)
	if fd == td {
		return "./" + path.Base(target)
	}
	// compute a relative path
	fs := splitDir(fd)
	ts := splitDir(td)
	i := 0
	for i < len(fs) && i < len(ts) && fs[i] == ts[i] {
		i++
	}
	var parts []string
	for j := i; j < len(fs); j++ {
		parts = append(parts, "..")
	}
	parts = append(parts, ts[i:]...)
	parts = append(parts, path.Base(target))
	rel := strings.Join(parts, "/")
	if !strings.HasPrefix(rel, "..") {
		rel = "./" + rel
	}
	return rel
}

func splitDir(d string) []string {
	if d == "." || d == "" {
		return nil
	}
	return strings.Split(d, "/")
}

// ---------------------------------------------------------------- rendering

// Render prints every file of the program: path -> text.
func (p *Program) Render() map[string]string {
	p.Index()
	out := map[string]string{}
	for _, f := range p.Files {
		out[f.Path] = p.RenderFile(f)
	}
	return out
}

// RenderFile prints one file.
func (p *Program) RenderFile(f *File) string {
	if f.Raw != "" {
		return f.Raw
	}
	var sb strings.Builder
	for _, inc := range f.Includes {
		fmt.Fprintf(&sb, "include %q\n", relInclude(f.Path, inc))
	}
	if len(f.Includes) > 0 {
		sb.WriteString("\n")
	}
	for _, d := range f.Defs {
		p.renderDef(&sb, f, d)
		sb.WriteString("\n")
	}
	return sb.String()
}

func annots(a map[string]string) string {
	if len(a) == 0 {
		return ""
	}
	keys := make([]string, 0, len(a))
	for k := range a {
		keys = append(keys, k)
	}
	sort.Strings(keys)
	var parts []string
	for _, k := range keys {
		if a[k] == "\x00" { // bare annotation without value
			parts = append(parts, k)
		} else {
			parts = append(parts, fmt.Sprintf("%s = %s", k, quote(a[k])))
		}
	}
	return " (" + strings.Join(parts, ", ") + ")"
}

func quote(s string) string {
	var sb strings.Builder
	sb.WriteByte('"')
	for i := 0; i < len(s); i++ {
		c := s[i]
		switch {
		case c == '"' || c == '\\':
			sb.WriteByte('\\')
			sb.WriteByte(c)
		case c == '\n':
			sb.WriteString(`\n`)
		case c == '\t':
			sb.WriteString(`\t`)
		case c == '\r':
			sb.WriteString(`\r`)
		case c < 0x20 || c >= 0x7f:
			fmt.Fprintf(&sb, `\x%02x`, c)
		default:
			sb.WriteByte(c)
		}
	}
	sb.WriteByte('"')
	return sb.String()
}

// refName spells a reference to a definition as seen from file f.
func refName(f *File, r Ref) string {
	if r.File == f.Path {
		return r.Name
	}
	return IncludeName(r.File) + "." + r.Name
}

// TypeString spells a type as seen from file f.
func TypeString(f *File, t *Type) string {
	var s string
	switch t.K {
	case TList:
		s = "list<" + TypeString(f, t.Elem) + ">"
	case TSet:
		s = "set<" + TypeString(f, t.Elem) + ">"
	case TMap:
		s = "map<" + TypeString(f, t.Key) + ", " + TypeString(f, t.Val) + ">"
	case TRef:
		s = refName(f, *t.Ref)
	default:
		s = t.K
	}
	return s + annots(t.Annots)
}

// ConstString spells a constant expression as seen from file f.
func ConstString(f *File, c *Const) string {
	switch c.K {
	case "int":
		if c.Spell != "" {
			return c.Spell
		}
		return fmt.Sprint(c.I)
	case "double":
		if c.Spell != "" {
			return c.Spell
		}
		s := fmt.Sprintf("%v", c.F)
		if !strings.ContainsAny(s, ".eE") {
			s += ".0"
		}
		return s
	case "bool":
		if c.B {
			return "true"
		}
		return "false"
	case "string":
		return quote(c.S)
	case "list":
		var parts []string
		for _, it := range c.Items {
			parts = append(parts, ConstString(f, it))
		}
		return "[" + strings.Join(parts, ", ") + "]"
	case "map":
		var parts []string
		for _, p := range c.Pairs {
			parts = append(parts, ConstString(f, p[0])+": "+ConstString(f, p[1]))
		}
		return "{" + strings.Join(parts, ", ") + "}"
	case "ref":
		s := refName(f, c.Ref.Target)
		if c.Ref.Item != "" {
			s += "." + c.Ref.Item
		}
		return s
	}
	return "?"
}

func (p *Program) renderField(sb *strings.Builder, f *File, fl *Field, indent string) {
	sb.WriteString(indent)
	if !fl.NoID {
		if fl.IDSpell != "" {
			sb.WriteString(fl.IDSpell)
		} else {
			fmt.Fprintf(sb, "%d", fl.ID)
		}
		sb.WriteString(": ")
	}
	if fl.Req != "" {
		sb.WriteString(fl.Req + " ")
	}
	sb.WriteString(TypeString(f, fl.Type) + " " + fl.Name)
	if fl.Default != nil {
		sb.WriteString(" = " + ConstString(f, fl.Default))
	}
	sb.WriteString(annots(fl.Annots))
}

func (p *Program) renderDef(sb *strings.Builder, f *File, d *Def) {
	switch d.Kind {
	case DTypedef:
		fmt.Fprintf(sb, "typedef %s %s%s\n", TypeString(f, d.Target), d.Name, annots(d.Annots))
	case DEnum:
		fmt.Fprintf(sb, "enum %s {\n", d.Name)
		for _, it := range d.Items {
			sb.WriteString("  " + it.Name)
			if it.Explicit {
				if it.Spell != "" {
					sb.WriteString(" = " + it.Spell)
				} else {
					fmt.Fprintf(sb, " = %d", it.Value)
				}
			}
			sb.WriteString(annots(it.Annots) + ",\n")
		}
		fmt.Fprintf(sb, "}%s\n", annots(d.Annots))
	case DStruct, DUnion, DException:
		fmt.Fprintf(sb, "%s %s {\n", d.Kind, d.Name)
		for _, fl := range d.Fields {
			p.renderField(sb, f, fl, "  ")
			sb.WriteString("\n")
		}
		fmt.Fprintf(sb, "}%s\n", annots(d.Annots))
	case DConst:
		fmt.Fprintf(sb, "const %s %s = %s\n", TypeString(f, d.Type), d.Name, ConstString(f, d.Value))
	case DService:
		fmt.Fprintf(sb, "service %s", d.Name)
		if d.Parent != nil {
			sb.WriteString(" extends " + refName(f, *d.Parent))
		}
		sb.WriteString(" {\n")
		for _, fn := range d.Funcs {
			sb.WriteString("  ")
			if fn.OneWay {
				sb.WriteString("oneway ")
			}
			if fn.Ret == nil {
				sb.WriteString("void")
			} else {
				sb.WriteString(TypeString(f, fn.Ret))
			}
			sb.WriteString(" " + fn.Name + "(")
			for i, a := range fn.Args {
				if i > 0 {
					sb.WriteString(", ")
				}
				p.renderField(sb, f, a, "")
			}
			sb.WriteString(")")
			if len(fn.Throws) > 0 {
				sb.WriteString(" throws (")
				for i, a := range fn.Throws {
					if i > 0 {
						sb.WriteString(", ")
					}
					p.renderField(sb, f, a, "")
				}
				sb.WriteString(")")
			}
			sb.WriteString(annots(fn.Annots) + "\n")
		}
		fmt.Fprintf(sb, "}%s\n", annots(d.Annots))
	}
}

// Summary renders a one-line description for evidence samples.
func (p *Program) Summary() string {
	n := map[string]int{}
	for _, f := range p.Files {
		for _, d := range f.Defs {
			n[d.Kind]++
		}
	}
	var parts []string
	for _, k := range []string{DTypedef, DEnum, DStruct, DUnion, DException, DConst, DService} {
		if n[k] > 0 {
			parts = append(parts, fmt.Sprintf("%d %s", n[k], k))
		}
	}
	return fmt.Sprintf("%d files: %s", len(p.Files), strings.Join(parts, ", "))
}
