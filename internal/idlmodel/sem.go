package idlmodel

import (
	"fmt"
	"math"
	"strings"
	"unicode"
	"unicode/utf8"

	wm "verif/internal/wiremodel"
)

// Root follows typedefs until a non-typedef type is reached. The result is a
// base/container type, or a TRef to an enum or struct-like definition.
func (p *Program) Root(t *Type) *Type {
	for i := 0; i < 1000; i++ {
		if t.K != TRef {
			return t
		}
		d := p.Lookup(*t.Ref)
		if d == nil || d.Kind != DTypedef {
			return t
		}
		t = d.Target
	}
	return t
}

// RootDef returns the enum / struct-like definition a type resolves to, or nil.
func (p *Program) RootDef(t *Type) *Def {
	r := p.Root(t)
	if r.K != TRef {
		return nil
	}
	return p.Lookup(*r.Ref)
}

// WireKind is the wire type code of a type.
func (p *Program) WireKind(t *Type) wm.Kind {
	r := p.Root(t)
	switch r.K {
	case TBool:
		return wm.KBool
	case TI8:
		return wm.KI8
	case TI16:
		return wm.KI16
	case TI32:
		return wm.KI32
	case TI64:
		return wm.KI64
	case TDouble:
		return wm.KDouble
	case TString, TBinary:
		return wm.KBinary
	case TList:
		return wm.KList
	case TSet:
		return wm.KSet
	case TMap:
		return wm.KMap
	case TRef:
		d := p.Lookup(*r.Ref)
		if d != nil && d.Kind == DEnum {
			return wm.KI32
		}
		return wm.KStruct
	}
	return 0
}

// IsStructLike reports whether d is a struct, union or exception.
func (d *Def) IsStructLike() bool {
	return d != nil && (d.Kind == DStruct || d.Kind == DUnion || d.Kind == DException)
}

// Required reports whether a field must be present on the wire: declared
// required and without a default value.
func (f *Field) Required() bool { return f.Req == "required" && f.Default == nil }

// EvalError is a constant that cannot be cast to the requested type.
type EvalError struct{ Msg string }

func (e *EvalError) Error() string { return e.Msg }

func evalErr(format string, a ...interface{}) error { return &EvalError{fmt.Sprintf(format, a...)} }

// IntRange returns the inclusive range of an integer kind.
func IntRange(k string) (int64, int64) {
	switch k {
	case TI8:
		return math.MinInt8, math.MaxInt8
	case TI16:
		return math.MinInt16, math.MaxInt16
	case TI32:
		return math.MinInt32, math.MaxInt32
	}
	return math.MinInt64, math.MaxInt64
}

// Eval evaluates a constant expression cast to type t (the value a generated
// constant / default must have), as a wire tree.
func (p *Program) Eval(c *Const, t *Type) (wm.W, error) { return p.eval(c, t, 0) }

func (p *Program) eval(c *Const, t *Type, depth int) (wm.W, error) {
	if depth > 200 {
		return wm.W{}, evalErr("constant reference cycle")
	}
	r := p.Root(t)
	if c.K == "ref" {
		if c.Ref.Item != "" {
			en := p.Lookup(c.Ref.Target)
			rd := p.RootDef(t)
			if en == nil || rd != en {
				return wm.W{}, evalErr("enum item %s.%s used for another type", c.Ref.Target.Name, c.Ref.Item)
			}
			for _, it := range en.Items {
				if it.Name == c.Ref.Item {
					return wm.I32(int32(it.Value)), nil
				}
			}
			return wm.W{}, evalErr("unknown enum item %s", c.Ref.Item)
		}
		target := p.Lookup(c.Ref.Target)
		if target == nil || target.Kind != DConst {
			return wm.W{}, evalErr("dangling constant reference %s", c.Ref.Target.Name)
		}
		// A constant of another struct type (same field names, e.g. the same-named struct of
		// another file): its VALUE is what is referred to - the literal cast to the constant's
		// own type, that type's defaults included - and that value is then cast, field by field
		// name, to the type expected here, whose remaining defaults are filled in.
		if from, to := p.RootDef(target.Type), p.RootDef(t); from != nil && to != nil && from != to && from.IsStructLike() && to.IsStructLike() {
			w, err := p.eval(target.Value, target.Type, depth+1)
			if err != nil {
				return wm.W{}, err
			}
			w = p.Fill(target.Type, w)
			out := wm.Struct()
			for _, fv := range w.Fields {
				var ff, tf *Field
				for _, x := range from.Fields {
					if int16(x.ID) == fv.ID {
						ff = x
					}
				}
				if ff != nil {
					for _, x := range to.Fields {
						if x.Name == ff.Name {
							tf = x
						}
					}
				}
				if tf == nil {
					return wm.W{}, evalErr("constant of type %s has a field the expected type %s lacks", from.Name, to.Name)
				}
				out.Fields = append(out.Fields, wm.Field{ID: int16(tf.ID), V: fv.V})
			}
			return p.FillFields(to.Fields, out), nil
		}
		return p.eval(target.Value, t, depth+1)
	}
	switch r.K {
	case TBool:
		switch c.K {
		case "bool":
			return wm.Bool(c.B), nil
		case "int":
			if c.I == 0 || c.I == 1 {
				return wm.Bool(c.I == 1), nil
			}
		}
	case TI8, TI16, TI32, TI64:
		if c.K == "int" {
			lo, hi := IntRange(r.K)
			if c.I < lo || c.I > hi {
				return wm.W{}, evalErr("%d out of range for %s", c.I, r.K)
			}
			return wm.W{K: p.WireKind(r), I: c.I}, nil
		}
	case TDouble:
		switch c.K {
		case "double":
			return wm.Double(c.F), nil
		case "int":
			return wm.Double(float64(c.I)), nil
		}
	case TString:
		if c.K == "string" {
			return wm.Binary([]byte(c.S)), nil
		}
	case TBinary:
		// no literal form
	case TList, TSet:
		if c.K == "list" {
			w := wm.W{K: p.WireKind(r), EK: p.WireKind(r.Elem)}
			for _, it := range c.Items {
				e, err := p.eval(it, r.Elem, depth+1)
				if err != nil {
					return wm.W{}, err
				}
				w.Elems = append(w.Elems, e)
			}
			return w, nil
		}
	case TMap:
		if c.K == "map" {
			w := wm.W{K: wm.KMap, KK: p.WireKind(r.Key), VK: p.WireKind(r.Val)}
			for _, pr := range c.Pairs {
				k, err := p.eval(pr[0], r.Key, depth+1)
				if err != nil {
					return wm.W{}, err
				}
				v, err := p.eval(pr[1], r.Val, depth+1)
				if err != nil {
					return wm.W{}, err
				}
				w.Pairs = append(w.Pairs, wm.Pair{K: k, V: v})
			}
			return w, nil
		}
	case TRef:
		d := p.Lookup(*r.Ref)
		if d == nil {
			return wm.W{}, evalErr("dangling type reference")
		}
		if d.Kind == DEnum {
			if c.K == "int" {
				for _, it := range d.Items {
					if it.Value == c.I {
						return wm.I32(int32(it.Value)), nil
					}
				}
				return wm.W{}, evalErr("%d is not a value of enum %s", c.I, d.Name)
			}
			break
		}
		if c.K == "map" {
			given := map[string]*Const{}
			for _, pr := range c.Pairs {
				if pr[0].K != "string" {
					return wm.W{}, evalErr("struct literal key is not a string")
				}
				given[pr[0].S] = pr[1]
			}
			w := wm.Struct()
			for _, f := range d.Fields {
				fc, ok := given[f.Name]
				if !ok {
					if f.Default == nil {
						if f.Required() {
							return wm.W{}, evalErr("%s is a required field", f.Name)
						}
						continue
					}
					fc = f.Default
				}
				v, err := p.eval(fc, f.Type, depth+1)
				if err != nil {
					return wm.W{}, err
				}
				w.Fields = append(w.Fields, wm.Field{ID: int16(f.ID), V: v})
			}
			return w, nil
		}
	}
	return wm.W{}, evalErr("cannot cast %s constant to %s", c.K, r.K)
}

// Fill returns w with declared defaults filled in for absent fields, at every
// nesting level (what a thriftrw reader produces and a writer emits).
func (p *Program) Fill(t *Type, w wm.W) wm.W {
	r := p.Root(t)
	switch r.K {
	case TList, TSet:
		out := w
		out.Elems = make([]wm.W, len(w.Elems))
		for i, e := range w.Elems {
			out.Elems[i] = p.Fill(r.Elem, e)
		}
		return out
	case TMap:
		out := w
		out.Pairs = make([]wm.Pair, len(w.Pairs))
		for i, pr := range w.Pairs {
			out.Pairs[i] = wm.Pair{K: p.Fill(r.Key, pr.K), V: p.Fill(r.Val, pr.V)}
		}
		return out
	case TRef:
		d := p.Lookup(*r.Ref)
		if !d.IsStructLike() || w.K != wm.KStruct {
			return w
		}
		return p.FillFields(d.Fields, w)
	}
	return w
}

// FillFields is Fill for an explicit field list (function arguments).
func (p *Program) FillFields(fields []*Field, w wm.W) wm.W {
	out := wm.Struct()
	present := map[int16]wm.W{}
	for _, f := range w.Fields {
		present[f.ID] = f.V
	}
	for _, f := range fields {
		if v, ok := present[int16(f.ID)]; ok {
			out.Fields = append(out.Fields, wm.Field{ID: int16(f.ID), V: p.Fill(f.Type, v)})
			continue
		}
		if f.Default != nil {
			if v, err := p.Eval(f.Default, f.Type); err == nil {
				out.Fields = append(out.Fields, wm.Field{ID: int16(f.ID), V: v})
			}
		}
	}
	return out
}

// ProjectError is the reference decoder's rejection.
type ProjectError struct{ Msg string }

func (e *ProjectError) Error() string { return e.Msg }

// Project states what a reader with schema type t must obtain from the
// well-formed wire tree w: unknown / mistyped fields ignored, defaults filled,
// required fields and union arity enforced, at any depth. The second result
// tells whether the value is present at all (a container whose element types
// do not match decodes as absent).
func (p *Program) Project(t *Type, w wm.W) (wm.W, error) {
	out, _, err := p.project(t, w)
	return out, err
}

// project additionally reports whether the value came out as a nil container:
// a list / set / map whose element types differ from the declared ones decodes
// to nil without error in both generated paths. A nil container counts as
// "seen" for a required field but not as a set member of a union.
func (p *Program) project(t *Type, w wm.W) (wm.W, bool, error) {
	r := p.Root(t)
	switch r.K {
	case TList, TSet:
		out := wm.W{K: w.K, EK: p.WireKind(r.Elem)}
		if w.EK != out.EK {
			return out, true, nil
		}
		for _, e := range w.Elems {
			pe, _, err := p.project(r.Elem, e)
			if err != nil {
				return wm.W{}, false, err
			}
			out.Elems = append(out.Elems, pe)
		}
		return out, false, nil
	case TMap:
		out := wm.W{K: wm.KMap, KK: p.WireKind(r.Key), VK: p.WireKind(r.Val)}
		if w.KK != out.KK || w.VK != out.VK {
			return out, true, nil
		}
		for _, pr := range w.Pairs {
			k, _, err := p.project(r.Key, pr.K)
			if err != nil {
				return wm.W{}, false, err
			}
			v, _, err := p.project(r.Val, pr.V)
			if err != nil {
				return wm.W{}, false, err
			}
			out.Pairs = append(out.Pairs, wm.Pair{K: k, V: v})
		}
		return out, false, nil
	case TRef:
		d := p.Lookup(*r.Ref)
		if !d.IsStructLike() {
			return w, false, nil // enum: any i32
		}
		arity := ArityAny
		if d.Kind == DUnion {
			arity = ArityExactlyOne
		}
		out, err := p.ProjectFields(d.Fields, arity, w)
		return out, false, err
	}
	return w, false, nil
}

// Arity constraints on the number of members set.
const (
	ArityAny        = 0
	ArityExactlyOne = 1 // unions, results of non-void functions
	ArityAtMostOne  = 2 // results of void functions
)

// ProjectFields is Project for an explicit field list.
func (p *Program) ProjectFields(fields []*Field, arity int, w wm.W) (wm.W, error) {
	byID := map[int16]*Field{}
	for _, f := range fields {
		byID[int16(f.ID)] = f
	}
	stored := map[int16]wm.W{}
	nilContainer := map[int16]bool{}
	for _, wf := range w.Fields {
		f, ok := byID[wf.ID]
		if !ok || p.WireKind(f.Type) != wf.V.K {
			continue // unknown id, or known id with another wire type: skipped
		}
		v, isNil, err := p.project(f.Type, wf.V)
		if err != nil {
			return wm.W{}, err
		}
		stored[wf.ID] = v // a repeated field: the last occurrence wins
		nilContainer[wf.ID] = isNil
	}
	out := wm.Struct()
	members := 0
	for _, f := range fields {
		v, ok := stored[int16(f.ID)]
		if !ok {
			if f.Required() {
				return wm.W{}, &ProjectError{fmt.Sprintf("required field %s (id %d) missing", f.Name, f.ID)}
			}
			if f.Default != nil {
				if dv, err := p.Eval(f.Default, f.Type); err == nil {
					out.Fields = append(out.Fields, wm.Field{ID: int16(f.ID), V: dv})
				}
			}
			continue
		}
		if nilContainer[int16(f.ID)] {
			// decoded to a nil container: nothing is stored; an optional field with a
			// default keeps its default
			if f.Default != nil && !f.Required() {
				if dv, err := p.Eval(f.Default, f.Type); err == nil {
					out.Fields = append(out.Fields, wm.Field{ID: int16(f.ID), V: dv})
				}
			}
			continue
		}
		members++
		out.Fields = append(out.Fields, wm.Field{ID: int16(f.ID), V: v})
	}
	if (arity == ArityExactlyOne && members != 1) || (arity == ArityAtMostOne && members > 1) {
		return wm.W{}, &ProjectError{fmt.Sprintf("union has %d members set", members)}
	}
	return out, nil
}

// ---------------------------------------------------------------- Go naming

var initialisms = map[string]bool{
	"API": true, "ASCII": true, "CPU": true, "CSS": true, "DNS": true, "EOF": true, "GUID": true, "HTML": true,
	"HTTP": true, "HTTPS": true, "ID": true, "IP": true, "JSON": true, "LHS": true, "QPS": true, "RAM": true, "RHS": true,
	"RPC": true, "SLA": true, "SMTP": true, "SQL": true, "SSH": true, "TCP": true, "TLS": true, "TTL": true, "UDP": true,
	"UI": true, "UID": true, "UUID": true, "URI": true, "URL": true, "UTF8": true, "VM": true, "XML": true,
	"XSRF": true, "XSS": true,
}

func isAllCaps(s string) bool {
	for _, r := range s {
		if unicode.IsLetter(r) && !unicode.IsUpper(r) {
			return false
		}
	}
	return true
}

// GoName is the documented Thrift-name -> Go-identifier rule: PascalCase of the
// '_'-separated words, golint initialisms upper-cased, SCREAMING_SNAKE words
// title-cased (a single ALLCAPS word is kept).
func GoName(s string) string {
	words := strings.Split(s, "_")
	return pascal(len(words) == 1, words)
}

// GoConstName is the rule for constants and enum items: like GoName but a
// single ALLCAPS word is title-cased too.
func GoConstName(s string) string { return pascal(false, strings.Split(s, "_")) }

func pascal(allowAllCaps bool, words []string) string {
	for i, chunk := range words {
		if chunk == "" {
			continue
		}
		up := strings.ToUpper(chunk)
		if initialisms[up] {
			words[i] = up
			continue
		}
		if isAllCaps(chunk) && !allowAllCaps {
			low := strings.ToLower(chunk)
			h, n := utf8.DecodeRuneInString(low)
			words[i] = string(unicode.ToUpper(h)) + low[n:]
			continue
		}
		h, n := utf8.DecodeRuneInString(chunk)
		words[i] = string(unicode.ToUpper(h)) + chunk[n:]
	}
	return strings.Join(words, "")
}

// GoNameOf applies the go.name annotation override.
func GoNameOf(thrift string, annots map[string]string) string {
	if n, ok := annots["go.name"]; ok {
		return n
	}
	return GoName(thrift)
}

// PackageOf returns the Go package directory (relative to the output root)
// and package name generated for a thrift file path relative to the root.
func PackageOf(thriftPath string) (dir, name string) {
	dir = strings.TrimSuffix(thriftPath, ".thrift")
	name = strings.Replace(dir[strings.LastIndex(dir, "/")+1:], "-", "_", -1)
	return dir, name
}
