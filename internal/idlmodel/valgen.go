package idlmodel

import (
	"math"

	"pgregory.net/rapid"
	wm "verif/internal/wiremodel"
)

// ValOpts steers the schema-directed value generator.
type ValOpts struct {
	Depth      int  // remaining struct-nesting budget (default 4)
	NoNaN      bool // no NaN anywhere (C14)
	AllPresent bool // every optional field present while the budget lasts
	MaxLen     int  // container length bound (default 3)
	// Marker, when non-nil, is called for every string / binary leaf and may
	// return the payload to use (C15 markers).
	Marker func(kind string) []byte
}

func (o ValOpts) norm() ValOpts {
	if o.Depth == 0 {
		o.Depth = 4
	}
	if o.MaxLen == 0 {
		o.MaxLen = 3
	}
	return o
}

var sampleStrings = []string{"", "a", "hello world", "ünïcödé ☃", "with\nnewline", "quote\"s", "tab\t", "\x00nul", "\xff\xfeinvalid-utf8", "a longer string value with spaces and punctuation, yes!"}

// GenValue draws a valid wire value of schema type t.
func (p *Program) GenValue(t *rapid.T, ty *Type, o ValOpts, label string) wm.W {
	return p.genValue(t, ty, o.norm(), false, label)
}

// GenFields draws a valid wire struct for an explicit field list.
func (p *Program) GenFields(t *rapid.T, fields []*Field, union bool, allowEmptyUnion bool, o ValOpts, label string) wm.W {
	return p.genFields(t, fields, union, allowEmptyUnion, o.norm(), label)
}

func (p *Program) genValue(t *rapid.T, ty *Type, o ValOpts, hashed bool, label string) wm.W {
	r := p.Root(ty)
	switch r.K {
	case TBool:
		return wm.Bool(rapid.Bool().Draw(t, label))
	case TI8, TI16, TI32, TI64:
		k := p.WireKind(r)
		return wm.W{K: k, I: wm.GenInt(t, k, label)}
	case TDouble:
		return wm.DoubleBits(wm.GenDoubleBits(t, o.NoNaN || hashed, label))
	case TString:
		if o.Marker != nil {
			if m := o.Marker("string"); m != nil {
				return wm.Binary(m)
			}
		}
		if rapid.IntRange(0, 3).Draw(t, label+"_smode") == 0 {
			return wm.Binary([]byte(rapid.String().Draw(t, label+"_s")))
		}
		return wm.Binary([]byte(rapid.SampledFrom(sampleStrings).Draw(t, label+"_ss")))
	case TBinary:
		if o.Marker != nil {
			if m := o.Marker("binary"); m != nil {
				return wm.Binary(m)
			}
		}
		return wm.Binary(rapid.SliceOfN(rapid.Byte(), 0, 12).Draw(t, label+"_b"))
	case TList:
		w := wm.W{K: wm.KList, EK: p.WireKind(r.Elem)}
		n := 0
		if o.Depth > 0 {
			n = rapid.IntRange(0, o.MaxLen).Draw(t, label+"_n")
		}
		for i := 0; i < n; i++ {
			w.Elems = append(w.Elems, p.genValue(t, r.Elem, o, hashed, label+"_e"))
		}
		return w
	case TSet:
		w := wm.W{K: wm.KSet, EK: p.WireKind(r.Elem)}
		n := 0
		if o.Depth > 0 {
			n = rapid.IntRange(0, o.MaxLen).Draw(t, label+"_n")
		}
		for i := 0; i < n; i++ {
			e := p.genValue(t, r.Elem, o, true, label+"_e")
			dup := false
			fe := p.Fill(r.Elem, e)
			for _, x := range w.Elems {
				// compare with defaults filled: {} and {f: <default of f>} are the same element
				if wm.SemEqual(p.Fill(r.Elem, x), fe) {
					dup = true
				}
			}
			if !dup {
				w.Elems = append(w.Elems, e)
			}
		}
		return w
	case TMap:
		w := wm.W{K: wm.KMap, KK: p.WireKind(r.Key), VK: p.WireKind(r.Val)}
		n := 0
		if o.Depth > 0 {
			n = rapid.IntRange(0, o.MaxLen).Draw(t, label+"_n")
		}
		for i := 0; i < n; i++ {
			k := p.genValue(t, r.Key, o, true, label+"_k")
			dup := false
			fk := p.Fill(r.Key, k)
			for _, x := range w.Pairs {
				if wm.SemEqual(p.Fill(r.Key, x.K), fk) {
					dup = true
				}
			}
			if dup {
				continue
			}
			w.Pairs = append(w.Pairs, wm.Pair{K: k, V: p.genValue(t, r.Val, o, hashed, label+"_v")})
		}
		return w
	case TRef:
		d := p.Lookup(*r.Ref)
		if d.Kind == DEnum {
			if len(d.Items) > 0 && rapid.IntRange(0, 4).Draw(t, label+"_eunk") != 0 {
				return wm.I32(int32(d.Items[rapid.IntRange(0, len(d.Items)-1).Draw(t, label+"_ei")].Value))
			}
			return wm.I32(rapid.SampledFrom([]int32{0, -1, 12345, math.MaxInt32, math.MinInt32, 7}).Draw(t, label+"_ev"))
		}
		o2 := o
		o2.Depth--
		return p.genFields(t, d.Fields, d.Kind == DUnion, false, o2, label)
	}
	panic("genValue: bad type " + r.K)
}

func (p *Program) genFields(t *rapid.T, fields []*Field, union, allowEmpty bool, o ValOpts, label string) wm.W {
	w := wm.Struct()
	if union {
		if len(fields) == 0 || (allowEmpty && rapid.IntRange(0, 3).Draw(t, label+"_uempty") == 0) {
			return w
		}
		// prefer members that do not recurse when the budget is exhausted
		cands := fields
		if o.Depth <= 0 {
			var flat []*Field
			for _, f := range fields {
				if k := p.WireKind(f.Type); k != wm.KStruct {
					flat = append(flat, f)
				}
			}
			if len(flat) > 0 {
				cands = flat
			}
		}
		f := cands[rapid.IntRange(0, len(cands)-1).Draw(t, label+"_um")]
		o2 := o
		if o2.Depth < 0 {
			o2.Depth = 0
		}
		w.Fields = append(w.Fields, wm.Field{ID: int16(f.ID), V: p.genValue(t, f.Type, o2, false, label+"_"+f.Name)})
		return w
	}
	for _, f := range fields {
		present := f.Required()
		if !present {
			switch {
			case o.Depth < 0:
				present = false
			case o.Depth == 0 && p.WireKind(f.Type) == wm.KStruct:
				present = false
			case o.AllPresent:
				present = true
			default:
				present = rapid.IntRange(0, 2).Draw(t, label+"_has_"+f.Name) != 0
			}
		}
		if !present {
			continue
		}
		o2 := o
		if o2.Depth < 0 {
			o2.Depth = 0
		}
		w.Fields = append(w.Fields, wm.Field{ID: int16(f.ID), V: p.genValue(t, f.Type, o2, false, label+"_"+f.Name)})
	}
	return w
}
