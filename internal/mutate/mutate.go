// Package mutate applies grammar-aware mutations to reference encodings. It
// re-walks the W tree alongside the reference encoder to learn the offset of
// every type byte, length/count word and field boundary, so that edits hit the
// interesting positions deliberately instead of by luck.
package mutate

import (
	"encoding/binary"
	"fmt"

	"pgregory.net/rapid"
	"verif/internal/refcodec"
	wm "verif/internal/wiremodel"
)

// SiteKind classifies an offset of an encoding.
type SiteKind int

const (
	SiteTypeByte SiteKind = iota // a field/element/key/value type code (1 byte)
	SiteLength                   // a binary length (4 bytes)
	SiteCount                    // a list/set/map count (4 bytes)
	SiteFieldID                  // a field id (2 bytes)
	SiteBoundary                 // a position where a new field header may start (incl. before the stop byte)
	SiteBool                     // a bool byte
)

// Site is one interesting offset.
type Site struct {
	Kind  SiteKind
	Off   int
	Depth int
	Elem  wm.Kind // for SiteCount: element (list/set) or key kind; for SiteLength: binary
	True  int64   // the true value of the length / count
}

// Sites encodes w and returns the bytes together with all sites.
func Sites(w wm.W) ([]byte, []Site) {
	var s []Site
	b := walk(nil, w, 0, &s)
	return b, s
}

func walk(b []byte, w wm.W, depth int, s *[]Site) []byte {
	switch w.K {
	case wm.KBool:
		*s = append(*s, Site{Kind: SiteBool, Off: len(b), Depth: depth})
		return refcodec.Append(b, w)
	case wm.KBinary:
		*s = append(*s, Site{Kind: SiteLength, Off: len(b), Depth: depth, Elem: wm.KBinary, True: int64(len(w.Bin))})
		return refcodec.Append(b, w)
	case wm.KStruct:
		for _, f := range w.Fields {
			*s = append(*s, Site{Kind: SiteBoundary, Off: len(b), Depth: depth})
			*s = append(*s, Site{Kind: SiteTypeByte, Off: len(b), Depth: depth})
			b = append(b, byte(f.V.K))
			*s = append(*s, Site{Kind: SiteFieldID, Off: len(b), Depth: depth})
			b = append(b, byte(uint16(f.ID)>>8), byte(f.ID))
			b = walk(b, f.V, depth+1, s)
		}
		*s = append(*s, Site{Kind: SiteBoundary, Off: len(b), Depth: depth})
		return append(b, 0)
	case wm.KList, wm.KSet:
		*s = append(*s, Site{Kind: SiteTypeByte, Off: len(b), Depth: depth})
		b = append(b, byte(w.EK))
		*s = append(*s, Site{Kind: SiteCount, Off: len(b), Depth: depth, Elem: w.EK, True: int64(len(w.Elems))})
		b = binary.BigEndian.AppendUint32(b, uint32(len(w.Elems)))
		for _, e := range w.Elems {
			b = walk(b, e, depth+1, s)
		}
		return b
	case wm.KMap:
		*s = append(*s, Site{Kind: SiteTypeByte, Off: len(b), Depth: depth})
		b = append(b, byte(w.KK))
		*s = append(*s, Site{Kind: SiteTypeByte, Off: len(b), Depth: depth})
		b = append(b, byte(w.VK))
		*s = append(*s, Site{Kind: SiteCount, Off: len(b), Depth: depth, Elem: w.KK, True: int64(len(w.Pairs))})
		b = binary.BigEndian.AppendUint32(b, uint32(len(w.Pairs)))
		for _, p := range w.Pairs {
			b = walk(b, p.K, depth+1, s)
			b = walk(b, p.V, depth+1, s)
		}
		return b
	}
	return refcodec.Append(b, w)
}

// HostileLengths are the values planted into length/count words.
var HostileLengths = []int64{-1, -2147483648, 1 << 16, 1 << 24, 2147483647, 1 << 20, (1 << 20) + 1, 0}

// TypeBytes are the values planted into type-code positions.
var TypeBytes = []byte{2, 3, 4, 6, 8, 10, 11, 12, 13, 14, 15, 0, 1, 5, 7, 9, 16, 0x7f, 0x80, 0xff}

// Op is one applied mutation (for classification and replay readability).
type Op struct {
	Kind string `json:"kind"`
	Off  int    `json:"off"`
	Arg  int64  `json:"arg,omitempty"`
}

func (o Op) String() string { return fmt.Sprintf("%s@%d(%d)", o.Kind, o.Off, o.Arg) }

func pick(t *rapid.T, sites []Site, kind SiteKind, label string) (Site, bool) {
	var c []Site
	for _, s := range sites {
		if s.Kind == kind {
			c = append(c, s)
		}
	}
	if len(c) == 0 {
		return Site{}, false
	}
	return c[rapid.IntRange(0, len(c)-1).Draw(t, label)], true
}

// Mutate applies 1..3 drawn mutations to the encoding of w and returns the
// bytes and the operations applied. extra supplies a well-formed value used by
// field injection.
func Mutate(t *rapid.T, w wm.W, label string) ([]byte, []Op) {
	b, sites := Sites(w)
	b = append([]byte{}, b...)
	var ops []Op
	n := rapid.IntRange(1, 3).Draw(t, label+"_nops")
	for i := 0; i < n; i++ {
		var op Op
		b, op = one(t, b, sites, fmt.Sprintf("%s_%d", label, i))
		if op.Kind != "" {
			ops = append(ops, op)
		}
		if i == 0 && op.Kind != "len" && op.Kind != "type" && op.Kind != "bool" && op.Kind != "flip" && op.Kind != "fieldid" {
			break // offsets are stale after a size-changing edit
		}
	}
	return b, ops
}

func one(t *rapid.T, b []byte, sites []Site, label string) ([]byte, Op) {
	switch rapid.IntRange(0, 9).Draw(t, label+"_op") {
	case 0, 1: // length / count edit
		kind := SiteCount
		if rapid.Bool().Draw(t, label+"_lenorcount") {
			kind = SiteLength
		}
		s, ok := pick(t, sites, kind, label+"_site")
		if !ok {
			s, ok = pick(t, sites, SiteCount+SiteLength-kind, label+"_site2")
		}
		if ok && s.Off+4 <= len(b) {
			var v int64
			switch rapid.IntRange(0, 3).Draw(t, label+"_lv") {
			case 0:
				v = s.True + 1
			case 1:
				v = s.True - 1
			default:
				v = rapid.SampledFrom(HostileLengths).Draw(t, label+"_hostile")
			}
			binary.BigEndian.PutUint32(b[s.Off:], uint32(int32(v)))
			return b, Op{"len", s.Off, v}
		}
	case 2, 3: // type byte swap
		if s, ok := pick(t, sites, SiteTypeByte, label+"_site"); ok && s.Off < len(b) {
			v := rapid.SampledFrom(TypeBytes).Draw(t, label+"_tb")
			b[s.Off] = v
			return b, Op{"type", s.Off, int64(v)}
		}
	case 4: // bool byte
		if s, ok := pick(t, sites, SiteBool, label+"_site"); ok && s.Off < len(b) {
			v := rapid.SampledFrom([]byte{2, 0xff, 0x80, 1, 0}).Draw(t, label+"_bv")
			b[s.Off] = v
			return b, Op{"bool", s.Off, int64(v)}
		}
	case 5: // field id edit
		if s, ok := pick(t, sites, SiteFieldID, label+"_site"); ok && s.Off+2 <= len(b) {
			v := rapid.Uint16().Draw(t, label+"_fid")
			binary.BigEndian.PutUint16(b[s.Off:], v)
			return b, Op{"fieldid", s.Off, int64(v)}
		}
	case 6: // truncation at any offset
		if len(b) > 0 {
			off := rapid.IntRange(0, len(b)-1).Draw(t, label+"_trunc")
			return b[:off], Op{"truncate", off, 0}
		}
	case 7: // bit flip
		if len(b) > 0 {
			off := rapid.IntRange(0, len(b)-1).Draw(t, label+"_flipoff")
			bit := rapid.IntRange(0, 7).Draw(t, label+"_bit")
			b[off] ^= 1 << uint(bit)
			return b, Op{"flip", off, int64(bit)}
		}
	case 8: // insert bytes
		off := rapid.IntRange(0, len(b)).Draw(t, label+"_insoff")
		ins := rapid.SliceOfN(rapid.Byte(), 1, 6).Draw(t, label+"_ins")
		nb := append([]byte{}, b[:off]...)
		nb = append(nb, ins...)
		nb = append(nb, b[off:]...)
		return nb, Op{"insert", off, int64(len(ins))}
	case 9: // delete bytes
		if len(b) > 1 {
			off := rapid.IntRange(0, len(b)-1).Draw(t, label+"_deloff")
			n := rapid.IntRange(1, 4).Draw(t, label+"_deln")
			if off+n > len(b) {
				n = len(b) - off
			}
			nb := append([]byte{}, b[:off]...)
			nb = append(nb, b[off+n:]...)
			return nb, Op{"delete", off, int64(n)}
		}
	}
	return b, Op{}
}

// Inject inserts the encoding of field (type, id, value) at the given boundary
// site of enc and returns the new bytes.
func Inject(enc []byte, s Site, id int16, v wm.W) []byte {
	hdr := []byte{byte(v.K), byte(uint16(id) >> 8), byte(id)}
	out := append([]byte{}, enc[:s.Off]...)
	out = append(out, hdr...)
	out = refcodec.Append(out, v)
	return append(out, enc[s.Off:]...)
}

// Boundaries returns the field-boundary sites.
func Boundaries(sites []Site) []Site {
	var out []Site
	for _, s := range sites {
		if s.Kind == SiteBoundary {
			out = append(out, s)
		}
	}
	return out
}
