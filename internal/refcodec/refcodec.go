// Package refcodec is an independent statement of the Thrift binary protocol
// (thrift/doc/specs/thrift-binary-protocol.md) over wiremodel.W. It does not
// import thriftrw.
//
//	bool     1 byte, 0 or 1
//	i8..i64  big-endian two's complement, 1/2/4/8 bytes
//	double   IEEE-754 bits, big-endian, 8 bytes
//	binary   i32 length, then the bytes
//	list/set elemtype:1 count:4 elems
//	map      keytype:1 valuetype:1 count:4 (key value)*
//	struct   (type:1 id:2 value)* 0x00
//	strict envelope   0x8001:2 0x00 msgtype:1 name(len:4 bytes) seqid:4 struct
//	legacy envelope   name(len:4 bytes) msgtype:1 seqid:4 struct
//	frame    len:4 payload
package refcodec

import (
	"errors"
	"fmt"

	wm "verif/internal/wiremodel"
)

// Encode returns the binary-protocol encoding of w.
func Encode(w wm.W) []byte { return Append(nil, w) }

func be16(b []byte, v uint16) []byte { return append(b, byte(v>>8), byte(v)) }
func be32(b []byte, v uint32) []byte {
	return append(b, byte(v>>24), byte(v>>16), byte(v>>8), byte(v))
}
func be64(b []byte, v uint64) []byte {
	return append(b, byte(v>>56), byte(v>>48), byte(v>>40), byte(v>>32), byte(v>>24), byte(v>>16), byte(v>>8), byte(v))
}

// Append appends the encoding of w to b.
func Append(b []byte, w wm.W) []byte {
	switch w.K {
	case wm.KBool:
		if w.B {
			return append(b, 1)
		}
		return append(b, 0)
	case wm.KI8:
		return append(b, byte(int8(w.I)))
	case wm.KI16:
		return be16(b, uint16(int16(w.I)))
	case wm.KI32:
		return be32(b, uint32(int32(w.I)))
	case wm.KI64:
		return be64(b, uint64(w.I))
	case wm.KDouble:
		return be64(b, w.F)
	case wm.KBinary:
		b = be32(b, uint32(len(w.Bin)))
		return append(b, w.Bin...)
	case wm.KStruct:
		for _, f := range w.Fields {
			b = append(b, byte(f.V.K))
			b = be16(b, uint16(f.ID))
			b = Append(b, f.V)
		}
		return append(b, 0)
	case wm.KList, wm.KSet:
		b = append(b, byte(w.EK))
		b = be32(b, uint32(len(w.Elems)))
		for _, e := range w.Elems {
			b = Append(b, e)
		}
		return b
	case wm.KMap:
		b = append(b, byte(w.KK), byte(w.VK))
		b = be32(b, uint32(len(w.Pairs)))
		for _, p := range w.Pairs {
			b = Append(b, p.K)
			b = Append(b, p.V)
		}
		return b
	}
	panic(fmt.Sprintf("refcodec: bad kind %d", w.K))
}

// ErrShort is returned when the input ends inside a value.
var ErrShort = errors.New("refcodec: unexpected end of input")

// MaxDepth bounds recursion of the reference decoder (it is an oracle, not the
// system under test).
const MaxDepth = 100000

type dec struct {
	b   []byte
	off int
	// Lenient makes the decoder accept what thriftrw documents it accepts
	// beyond the spec; unused by default.
}

func (d *dec) need(n int) error {
	if n < 0 || len(d.b)-d.off < n {
		return ErrShort
	}
	return nil
}

func (d *dec) u8() (byte, error) {
	if err := d.need(1); err != nil {
		return 0, err
	}
	v := d.b[d.off]
	d.off++
	return v, nil
}

func (d *dec) u16() (uint16, error) {
	if err := d.need(2); err != nil {
		return 0, err
	}
	v := uint16(d.b[d.off])<<8 | uint16(d.b[d.off+1])
	d.off += 2
	return v, nil
}

func (d *dec) u32() (uint32, error) {
	if err := d.need(4); err != nil {
		return 0, err
	}
	v := uint32(d.b[d.off])<<24 | uint32(d.b[d.off+1])<<16 | uint32(d.b[d.off+2])<<8 | uint32(d.b[d.off+3])
	d.off += 4
	return v, nil
}

func (d *dec) u64() (uint64, error) {
	hi, err := d.u32()
	if err != nil {
		return 0, err
	}
	lo, err := d.u32()
	if err != nil {
		return 0, err
	}
	return uint64(hi)<<32 | uint64(lo), nil
}

// Decode decodes one value of kind k from the start of b. It is strict: bool
// must be 0/1, lengths/counts non-negative, type codes valid, no reads past the
// end. It returns the value and the number of bytes consumed.
func Decode(k wm.Kind, b []byte) (wm.W, int, error) {
	d := &dec{b: b}
	w, err := d.value(k, 0)
	return w, d.off, err
}

func (d *dec) value(k wm.Kind, depth int) (wm.W, error) {
	if depth > MaxDepth {
		return wm.W{}, errors.New("refcodec: too deep")
	}
	switch k {
	case wm.KBool:
		v, err := d.u8()
		if err != nil {
			return wm.W{}, err
		}
		if v > 1 {
			return wm.W{}, fmt.Errorf("refcodec: bool byte %d", v)
		}
		return wm.Bool(v == 1), nil
	case wm.KI8:
		v, err := d.u8()
		return wm.I8(int8(v)), err
	case wm.KI16:
		v, err := d.u16()
		return wm.I16(int16(v)), err
	case wm.KI32:
		v, err := d.u32()
		return wm.I32(int32(v)), err
	case wm.KI64:
		v, err := d.u64()
		return wm.I64(int64(v)), err
	case wm.KDouble:
		v, err := d.u64()
		return wm.DoubleBits(v), err
	case wm.KBinary:
		n, err := d.u32()
		if err != nil {
			return wm.W{}, err
		}
		if int32(n) < 0 {
			return wm.W{}, fmt.Errorf("refcodec: negative length %d", int32(n))
		}
		if err := d.need(int(n)); err != nil {
			return wm.W{}, err
		}
		out := make([]byte, n)
		copy(out, d.b[d.off:d.off+int(n)])
		d.off += int(n)
		return wm.Binary(out), nil
	case wm.KStruct:
		w := wm.W{K: wm.KStruct}
		for {
			t, err := d.u8()
			if err != nil {
				return wm.W{}, err
			}
			if t == 0 {
				return w, nil
			}
			if !wm.Kind(t).Valid() {
				return wm.W{}, fmt.Errorf("refcodec: bad field type %d", t)
			}
			id, err := d.u16()
			if err != nil {
				return wm.W{}, err
			}
			v, err := d.value(wm.Kind(t), depth+1)
			if err != nil {
				return wm.W{}, err
			}
			w.Fields = append(w.Fields, wm.Field{ID: int16(id), V: v})
		}
	case wm.KList, wm.KSet:
		t, err := d.u8()
		if err != nil {
			return wm.W{}, err
		}
		n, err := d.u32()
		if err != nil {
			return wm.W{}, err
		}
		if int32(n) < 0 {
			return wm.W{}, fmt.Errorf("refcodec: negative count %d", int32(n))
		}
		if !wm.Kind(t).Valid() {
			return wm.W{}, fmt.Errorf("refcodec: bad element type %d", t)
		}
		// every element takes at least one byte
		if err := d.need(int(n)); err != nil {
			return wm.W{}, err
		}
		w := wm.W{K: k, EK: wm.Kind(t)}
		for i := uint32(0); i < n; i++ {
			e, err := d.value(wm.Kind(t), depth+1)
			if err != nil {
				return wm.W{}, err
			}
			w.Elems = append(w.Elems, e)
		}
		return w, nil
	case wm.KMap:
		kt, err := d.u8()
		if err != nil {
			return wm.W{}, err
		}
		vt, err := d.u8()
		if err != nil {
			return wm.W{}, err
		}
		n, err := d.u32()
		if err != nil {
			return wm.W{}, err
		}
		if int32(n) < 0 {
			return wm.W{}, fmt.Errorf("refcodec: negative count %d", int32(n))
		}
		if !wm.Kind(kt).Valid() || !wm.Kind(vt).Valid() {
			return wm.W{}, fmt.Errorf("refcodec: bad map types %d,%d", kt, vt)
		}
		if err := d.need(2 * int(n)); err != nil {
			return wm.W{}, err
		}
		w := wm.W{K: wm.KMap, KK: wm.Kind(kt), VK: wm.Kind(vt)}
		for i := uint32(0); i < n; i++ {
			kv, err := d.value(wm.Kind(kt), depth+1)
			if err != nil {
				return wm.W{}, err
			}
			vv, err := d.value(wm.Kind(vt), depth+1)
			if err != nil {
				return wm.W{}, err
			}
			w.Pairs = append(w.Pairs, wm.Pair{K: kv, V: vv})
		}
		return w, nil
	}
	return wm.W{}, fmt.Errorf("refcodec: bad kind %d", k)
}

// Envelope is an RPC message header plus body.
type Envelope struct {
	Name  []byte `json:"name"`
	Type  int8   `json:"type"`
	SeqID int32  `json:"seqid"`
	Body  wm.W   `json:"body"`
}

// Framing kinds of a request.
const (
	FrameStrict = "strict"
	FrameLegacy = "legacy"
	FrameBare   = "bare"
)

// EncodeStrict encodes a versioned (strict) envelope.
func EncodeStrict(e Envelope) []byte {
	var b []byte
	b = be32(b, 0x80010000|uint32(uint8(e.Type)))
	b = be32(b, uint32(len(e.Name)))
	b = append(b, e.Name...)
	b = be32(b, uint32(e.SeqID))
	return Append(b, e.Body)
}

// EncodeLegacy encodes an unversioned envelope.
func EncodeLegacy(e Envelope) []byte {
	var b []byte
	b = be32(b, uint32(len(e.Name)))
	b = append(b, e.Name...)
	b = append(b, byte(e.Type))
	b = be32(b, uint32(e.SeqID))
	return Append(b, e.Body)
}

// DecodeEnvelope parses a strict or legacy envelope (decided by the sign bit of
// the first word, as the spec says) and returns it with its framing and bytes
// consumed.
func DecodeEnvelope(b []byte) (Envelope, string, int, error) {
	d := &dec{b: b}
	var e Envelope
	first, err := d.u32()
	if err != nil {
		return e, "", 0, err
	}
	framing := FrameLegacy
	if int32(first) < 0 {
		framing = FrameStrict
		if first>>16 != 0x8001 {
			return e, "", 0, fmt.Errorf("refcodec: bad envelope version %#x", first>>16)
		}
		e.Type = int8(first & 0xff)
		n, err := d.u32()
		if err != nil {
			return e, "", 0, err
		}
		if int32(n) < 0 {
			return e, "", 0, errors.New("refcodec: negative name length")
		}
		if err := d.need(int(n)); err != nil {
			return e, "", 0, err
		}
		e.Name = append([]byte{}, d.b[d.off:d.off+int(n)]...)
		d.off += int(n)
	} else {
		n := first
		if err := d.need(int(n)); err != nil {
			return e, "", 0, err
		}
		e.Name = append([]byte{}, d.b[d.off:d.off+int(n)]...)
		d.off += int(n)
		t, err := d.u8()
		if err != nil {
			return e, "", 0, err
		}
		e.Type = int8(t)
	}
	s, err := d.u32()
	if err != nil {
		return e, "", 0, err
	}
	e.SeqID = int32(s)
	body, err := d.value(wm.KStruct, 0)
	if err != nil {
		return e, "", 0, err
	}
	e.Body = body
	return e, framing, d.off, nil
}

// Frame prefixes payload with its 4-byte big-endian length.
func Frame(payload []byte) []byte {
	b := be32(nil, uint32(len(payload)))
	return append(b, payload...)
}

// Unframe splits one frame off the front of b.
func Unframe(b []byte) (payload, rest []byte, err error) {
	d := &dec{b: b}
	n, err := d.u32()
	if err != nil {
		return nil, nil, err
	}
	if err := d.need(int(n)); err != nil {
		return nil, nil, err
	}
	return b[4 : 4+int(n)], b[4+int(n):], nil
}

// Canon returns w in canonical form: struct fields sorted by id (stable), set
// elements and map entries sorted by the reference encoding of the
// (canonicalised) element / key, recursively. Two values are equal as Thrift
// values with bit-exact doubles iff their canonical forms are wm.Equal
// (provided sets / map keys are duplicate-free).
func Canon(w wm.W) wm.W {
	out := w
	switch w.K {
	case wm.KStruct:
		out.Fields = make([]wm.Field, len(w.Fields))
		for i, f := range w.Fields {
			out.Fields[i] = wm.Field{ID: f.ID, V: Canon(f.V)}
		}
		sortStable(len(out.Fields), func(i, j int) bool { return out.Fields[i].ID < out.Fields[j].ID }, func(i, j int) {
			out.Fields[i], out.Fields[j] = out.Fields[j], out.Fields[i]
		})
	case wm.KList:
		out.Elems = make([]wm.W, len(w.Elems))
		for i, e := range w.Elems {
			out.Elems[i] = Canon(e)
		}
	case wm.KSet:
		out.Elems = make([]wm.W, len(w.Elems))
		keys := make([]string, len(w.Elems))
		for i, e := range w.Elems {
			out.Elems[i] = Canon(e)
			keys[i] = string(Encode(out.Elems[i]))
		}
		sortStable(len(keys), func(i, j int) bool { return keys[i] < keys[j] }, func(i, j int) {
			keys[i], keys[j] = keys[j], keys[i]
			out.Elems[i], out.Elems[j] = out.Elems[j], out.Elems[i]
		})
	case wm.KMap:
		out.Pairs = make([]wm.Pair, len(w.Pairs))
		keys := make([]string, len(w.Pairs))
		for i, p := range w.Pairs {
			out.Pairs[i] = wm.Pair{K: Canon(p.K), V: Canon(p.V)}
			keys[i] = string(Encode(out.Pairs[i].K)) + "\x00" + string(Encode(out.Pairs[i].V))
		}
		sortStable(len(keys), func(i, j int) bool { return keys[i] < keys[j] }, func(i, j int) {
			keys[i], keys[j] = keys[j], keys[i]
			out.Pairs[i], out.Pairs[j] = out.Pairs[j], out.Pairs[i]
		})
	}
	if len(out.Elems) == 0 {
		out.Elems = nil
	}
	if len(out.Pairs) == 0 {
		out.Pairs = nil
	}
	if len(out.Fields) == 0 {
		out.Fields = nil
	}
	return out
}

// sortStable is an insertion sort over an index space (inputs are small).
func sortStable(n int, less func(i, j int) bool, swap func(i, j int)) {
	for i := 1; i < n; i++ {
		for j := i; j > 0 && less(j, j-1); j-- {
			swap(j, j-1)
		}
	}
}

// CanonEqual compares two values as Thrift values with bit-exact doubles.
func CanonEqual(a, b wm.W) bool { return wm.Equal(Canon(a), Canon(b)) }

// MaxDeclared scans b as a value of kind k the way any decoder would walk it
// and returns the largest length / element count declared by a header it
// reaches (the scan stops silently at the first malformed or truncated spot).
// It is used to keep inputs that would trigger a *known* allocation defect out
// of checks that are not about allocation.
func MaxDeclared(k wm.Kind, b []byte) int64 {
	d := &dec{b: b}
	var max int64
	var walk func(k wm.Kind, depth int) bool
	note := func(n uint32) {
		if int64(int32(n)) > max {
			max = int64(int32(n))
		}
	}
	walk = func(k wm.Kind, depth int) bool {
		if depth > 200 {
			return false
		}
		switch k {
		case wm.KBool, wm.KI8:
			_, err := d.u8()
			return err == nil
		case wm.KI16:
			_, err := d.u16()
			return err == nil
		case wm.KI32:
			_, err := d.u32()
			return err == nil
		case wm.KI64, wm.KDouble:
			_, err := d.u64()
			return err == nil
		case wm.KBinary:
			n, err := d.u32()
			if err != nil {
				return false
			}
			note(n)
			if int32(n) < 0 || d.need(int(n)) != nil {
				return false
			}
			d.off += int(n)
			return true
		case wm.KStruct:
			for {
				t, err := d.u8()
				if err != nil {
					return false
				}
				if t == 0 {
					return true
				}
				if _, err := d.u16(); err != nil {
					return false
				}
				if !wm.Kind(t).Valid() || !walk(wm.Kind(t), depth+1) {
					return false
				}
			}
		case wm.KList, wm.KSet:
			t, err := d.u8()
			if err != nil {
				return false
			}
			n, err := d.u32()
			if err != nil {
				return false
			}
			note(n)
			if int32(n) < 0 {
				return false
			}
			if n == 0 {
				// an empty container is accepted whatever its element type byte says (the
				// readers do not look at it): the walk goes on behind it
				return true
			}
			if !wm.Kind(t).Valid() {
				return false
			}
			for i := uint32(0); i < n; i++ {
				if !walk(wm.Kind(t), depth+1) {
					return false
				}
			}
			return true
		case wm.KMap:
			kt, err := d.u8()
			if err != nil {
				return false
			}
			vt, err := d.u8()
			if err != nil {
				return false
			}
			n, err := d.u32()
			if err != nil {
				return false
			}
			note(n)
			if int32(n) < 0 {
				return false
			}
			if n == 0 {
				return true // see lists
			}
			if !wm.Kind(kt).Valid() || !wm.Kind(vt).Valid() {
				return false
			}
			for i := uint32(0); i < n; i++ {
				if !walk(wm.Kind(kt), depth+1) || !walk(wm.Kind(vt), depth+1) {
					return false
				}
			}
			return true
		}
		return false
	}
	walk(k, 0)
	return max
}
