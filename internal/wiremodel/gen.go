package wiremodel

import (
	"math"

	"pgregory.net/rapid"
)

// GenOpts bounds the generator.
type GenOpts struct {
	MaxDepth  int  // container nesting below the root (default 5)
	MaxLen    int  // max children per container (default 6)
	BigBinary bool // allow occasional >1MiB binaries
	NoNaN     bool // never produce NaN doubles
	UniqueIDs bool // struct field ids duplicate-free (default in Gen)
	SetLike   bool // set elements / map keys duplicate-free under SemEqual
}

var interestingI64 = []int64{0, 1, -1, 127, 128, -128, -129, 255, 256, 32767, 32768, -32768, -32769, 65535, 65536,
	math.MaxInt32, math.MaxInt32 + 1, math.MinInt32, math.MinInt32 - 1, math.MaxInt64, math.MinInt64, math.MaxInt64 - 1, math.MinInt64 + 1}

var interestingF64 = []uint64{
	0, 0x8000000000000000, 0, 0x8000000000000000, // +0, -0 (twice: +0 == -0 with different bits is the classic trap)
	0x7ff0000000000000, 0xfff0000000000000, // +-inf
	0x7ff8000000000000, 0x7ff8000000000001, 0xfff8000000000000, 0x7ff0000000000001, 0xffffffffffffffff, // NaNs (quiet, payload, negative, signalling)
	0x0000000000000001, 0x000fffffffffffff, 0x0010000000000000, // subnormals / min normal
	0x3ff0000000000000, 0xbff0000000000000, 0x7fefffffffffffff, 0x400921fb54442d18,
}

func isNaNBits(b uint64) bool {
	f := math.Float64frombits(b)
	return f != f
}

// GenKind draws one of the eleven valid kinds.
func GenKind() *rapid.Generator[Kind] { return rapid.SampledFrom(AllKinds) }

// GenRootKind draws a kind, containers twice as likely as scalars.
func GenRootKind() *rapid.Generator[Kind] {
	return rapid.SampledFrom([]Kind{KBool, KI8, KDouble, KI16, KI32, KI64, KBinary,
		KStruct, KMap, KSet, KList, KStruct, KMap, KSet, KList, KStruct, KMap, KSet, KList, KStruct})
}

// GenInt draws an integer that fits in the given integer kind, biased to
// boundaries.
func GenInt(t *rapid.T, k Kind, label string) int64 {
	var lo, hi int64
	switch k {
	case KI8:
		lo, hi = math.MinInt8, math.MaxInt8
	case KI16:
		lo, hi = math.MinInt16, math.MaxInt16
	case KI32:
		lo, hi = math.MinInt32, math.MaxInt32
	default:
		lo, hi = math.MinInt64, math.MaxInt64
	}
	if rapid.IntRange(0, 3).Draw(t, label+"_mode") == 0 {
		v := rapid.SampledFrom(interestingI64).Draw(t, label+"_edge")
		if v >= lo && v <= hi {
			return v
		}
	}
	return rapid.Int64Range(lo, hi).Draw(t, label)
}

// GenDoubleBits draws a raw IEEE-754 bit pattern.
func GenDoubleBits(t *rapid.T, noNaN bool, label string) uint64 {
	var b uint64
	switch rapid.IntRange(0, 3).Draw(t, label+"_mode") {
	case 0:
		b = rapid.SampledFrom(interestingF64).Draw(t, label+"_edge")
	case 1:
		b = math.Float64bits(rapid.Float64().Draw(t, label+"_f"))
	default:
		b = rapid.Uint64().Draw(t, label+"_bits")
	}
	if noNaN && isNaNBits(b) {
		b = math.Float64bits(1.5)
	}
	return b
}

// GenBinary draws a byte string; occasionally (BigBinary) one that crosses the
// 1 MiB allocation threshold of the stream reader.
func GenBinary(t *rapid.T, big bool, label string) []byte {
	if big && rapid.IntRange(0, 49).Draw(t, label+"_big") == 0 {
		n := (1 << 20) + rapid.IntRange(-2, 70000).Draw(t, label+"_biglen")
		seed := rapid.Byte().Draw(t, label+"_bigseed")
		b := make([]byte, n)
		x := uint32(seed) + 1
		for i := range b {
			x = x*1664525 + 1013904223
			b[i] = byte(x >> 24)
		}
		return b
	}
	return rapid.SliceOfN(rapid.Byte(), 0, 40).Draw(t, label)
}

// Gen draws a well-typed W of kind k.
func Gen(t *rapid.T, k Kind, o GenOpts, label string) W {
	if o.MaxDepth == 0 {
		o.MaxDepth = 5
	}
	if o.MaxLen == 0 {
		o.MaxLen = 6
	}
	return gen(t, k, o, o.MaxDepth, label)
}

func childKind(t *rapid.T, depth int, label string) Kind {
	if depth <= 0 {
		return rapid.SampledFrom(ScalarKinds).Draw(t, label)
	}
	if rapid.Bool().Draw(t, label+"_c") {
		return rapid.SampledFrom([]Kind{KStruct, KMap, KSet, KList}).Draw(t, label)
	}
	return GenKind().Draw(t, label)
}

func gen(t *rapid.T, k Kind, o GenOpts, depth int, label string) W {
	switch k {
	case KBool:
		return Bool(rapid.Bool().Draw(t, label))
	case KI8, KI16, KI32, KI64:
		return W{K: k, I: GenInt(t, k, label)}
	case KDouble:
		return W{K: k, F: GenDoubleBits(t, o.NoNaN, label)}
	case KBinary:
		return W{K: k, Bin: GenBinary(t, o.BigBinary, label)}
	case KStruct:
		n := rapid.IntRange(0, o.MaxLen).Draw(t, label+"_nf")
		w := W{K: KStruct}
		used := map[int16]bool{}
		for i := 0; i < n; i++ {
			var id int16
			if rapid.IntRange(0, 4).Draw(t, label+"_idmode") == 0 {
				id = rapid.SampledFrom([]int16{0, 1, -1, math.MaxInt16, math.MinInt16, 255, 256, -32767}).Draw(t, label+"_idedge")
			} else if rapid.Bool().Draw(t, label+"_idsmall") {
				id = int16(rapid.IntRange(1, 20).Draw(t, label+"_id"))
			} else {
				id = rapid.Int16().Draw(t, label+"_id")
			}
			if used[id] {
				continue
			}
			used[id] = true
			fk := childKind(t, depth-1, label+"_fk")
			w.Fields = append(w.Fields, Field{ID: id, V: gen(t, fk, o, depth-1, label+"_f")})
		}
		return w
	case KList, KSet:
		ek := childKind(t, depth-1, label+"_ek")
		n := rapid.IntRange(0, o.MaxLen).Draw(t, label+"_n")
		w := W{K: k, EK: ek}
		for i := 0; i < n; i++ {
			e := gen(t, ek, o, depth-1, label+"_e")
			if k == KSet && o.SetLike && containsSem(w.Elems, e) {
				continue
			}
			w.Elems = append(w.Elems, e)
		}
		return w
	case KMap:
		kk := childKind(t, depth-1, label+"_kk")
		vk := childKind(t, depth-1, label+"_vk")
		n := rapid.IntRange(0, o.MaxLen).Draw(t, label+"_n")
		w := W{K: k, KK: kk, VK: vk}
		for i := 0; i < n; i++ {
			key := gen(t, kk, o, depth-1, label+"_k")
			if o.SetLike {
				dup := false
				for _, p := range w.Pairs {
					if SemEqual(p.K, key) {
						dup = true
						break
					}
				}
				if dup {
					continue
				}
			}
			w.Pairs = append(w.Pairs, Pair{K: key, V: gen(t, vk, o, depth-1, label+"_v")})
		}
		return w
	}
	panic("bad kind")
}

func containsSem(ws []W, x W) bool {
	for _, w := range ws {
		if SemEqual(w, x) {
			return true
		}
	}
	return false
}

// Small enumerates, completely, every well-typed tree of kind k over a tiny
// alphabet: per scalar kind 2-3 values, containers of length <= maxLen, nesting
// <= depth (depth 0: scalars only). Field ids are drawn from ids in order
// (the i-th field gets ids[i]); element kinds range over kinds.
func Small(k Kind, depth, maxLen int, kinds []Kind, ids []int16, emit func(W)) {
	switch k {
	case KBool:
		emit(Bool(false))
		emit(Bool(true))
	case KI8:
		emit(I8(0))
		emit(I8(-128))
		emit(I8(127))
	case KI16:
		emit(I16(1))
		emit(I16(-32768))
	case KI32:
		emit(I32(-1))
		emit(I32(math.MaxInt32))
	case KI64:
		emit(I64(math.MinInt64))
		emit(I64(0x0102030405060708))
	case KDouble:
		emit(DoubleBits(0x7ff8000000000001))
		emit(DoubleBits(0x8000000000000000))
	case KBinary:
		emit(Binary(nil))
		emit(Binary([]byte{0, 0xff}))
	case KStruct:
		emit(Struct())
		if depth <= 0 {
			return
		}
		// one field, of every kind
		for _, fk := range kinds {
			Small(fk, depth-1, maxLen, kinds, ids, func(v W) {
				emit(Struct(Field{ID: ids[0], V: v}))
			})
		}
		if maxLen >= 2 && len(ids) >= 2 {
			// two fields: first scalar-ish (depth 0), second anything
			for _, fk := range kinds {
				Small(fk, 0, maxLen, kinds, ids, func(v1 W) {
					for _, gk := range kinds {
						Small(gk, depth-1, maxLen, kinds, ids, func(v2 W) {
							emit(Struct(Field{ID: ids[1], V: v1}, Field{ID: ids[0], V: v2}))
						})
					}
				})
			}
		}
	case KList, KSet:
		for _, ek := range kinds {
			emit(W{K: k, EK: ek})
			if depth <= 0 {
				continue
			}
			var vals []W
			Small(ek, depth-1, maxLen, kinds, ids, func(v W) { vals = append(vals, v) })
			for _, v := range vals {
				emit(W{K: k, EK: ek, Elems: []W{v}})
			}
			if maxLen >= 2 {
				for i, v1 := range vals {
					for j, v2 := range vals {
						if k == KSet && i == j {
							continue
						}
						emit(W{K: k, EK: ek, Elems: []W{v1, v2}})
					}
				}
			}
		}
	case KMap:
		for _, kk := range kinds {
			for _, vk := range kinds {
				emit(W{K: KMap, KK: kk, VK: vk})
				if depth <= 0 {
					continue
				}
				var ks, vs []W
				Small(kk, 0, maxLen, kinds, ids, func(v W) { ks = append(ks, v) })
				Small(vk, depth-1, maxLen, kinds, ids, func(v W) { vs = append(vs, v) })
				for _, kv := range ks {
					for _, vv := range vs {
						emit(W{K: KMap, KK: kk, VK: vk, Pairs: []Pair{{K: kv, V: vv}}})
					}
				}
				if maxLen >= 2 && len(ks) >= 2 && len(vs) >= 1 {
					emit(W{K: KMap, KK: kk, VK: vk, Pairs: []Pair{{K: ks[0], V: vs[0]}, {K: ks[1], V: vs[len(vs)-1]}}})
				}
			}
		}
	}
}
