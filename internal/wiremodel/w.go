// Package wiremodel holds W, an implementation-independent tree model of a
// Thrift wire value, with generators. It does not import thriftrw.
package wiremodel

import (
	"bytes"
	"fmt"
	"math"
	"sort"
	"strings"
)

// Kind is a Thrift binary-protocol type code.
type Kind byte

// The eleven wire kinds (values from the Thrift binary protocol spec).
const (
	KBool   Kind = 2
	KI8     Kind = 3
	KDouble Kind = 4
	KI16    Kind = 6
	KI32    Kind = 8
	KI64    Kind = 10
	KBinary Kind = 11
	KStruct Kind = 12
	KMap    Kind = 13
	KSet    Kind = 14
	KList   Kind = 15
)

// AllKinds lists every valid kind.
var AllKinds = []Kind{KBool, KI8, KDouble, KI16, KI32, KI64, KBinary, KStruct, KMap, KSet, KList}

// ScalarKinds lists the kinds with no children.
var ScalarKinds = []Kind{KBool, KI8, KDouble, KI16, KI32, KI64, KBinary}

func (k Kind) String() string {
	switch k {
	case KBool:
		return "bool"
	case KI8:
		return "i8"
	case KDouble:
		return "double"
	case KI16:
		return "i16"
	case KI32:
		return "i32"
	case KI64:
		return "i64"
	case KBinary:
		return "binary"
	case KStruct:
		return "struct"
	case KMap:
		return "map"
	case KSet:
		return "set"
	case KList:
		return "list"
	}
	return fmt.Sprintf("kind(%d)", byte(k))
}

// Valid reports whether k is one of the eleven kinds.
func (k Kind) Valid() bool {
	switch k {
	case KBool, KI8, KDouble, KI16, KI32, KI64, KBinary, KStruct, KMap, KSet, KList:
		return true
	}
	return false
}

// FixedWidth returns the encoded width of a fixed-width kind, or 0.
func (k Kind) FixedWidth() int {
	switch k {
	case KBool, KI8:
		return 1
	case KI16:
		return 2
	case KI32:
		return 4
	case KI64, KDouble:
		return 8
	}
	return 0
}

// Field is one struct field.
type Field struct {
	ID int16 `json:"id"`
	V  W     `json:"v"`
}

// Pair is one map entry.
type Pair struct {
	K W `json:"k"`
	V W `json:"v"`
}

// W is a wire value tree.
type W struct {
	K      Kind    `json:"k"`
	B      bool    `json:"b,omitempty"`
	I      int64   `json:"i,omitempty"`   // i8/i16/i32/i64
	F      uint64  `json:"f,omitempty"`   // double, IEEE bits
	Bin    []byte  `json:"bin,omitempty"` // binary
	Fields []Field `json:"fields,omitempty"`
	EK     Kind    `json:"ek,omitempty"` // list/set element kind
	KK     Kind    `json:"kk,omitempty"` // map key kind
	VK     Kind    `json:"vk,omitempty"` // map value kind
	Elems  []W     `json:"elems,omitempty"`
	Pairs  []Pair  `json:"pairs,omitempty"`
}

// Constructors.
func Bool(b bool) W         { return W{K: KBool, B: b} }
func I8(v int8) W           { return W{K: KI8, I: int64(v)} }
func I16(v int16) W         { return W{K: KI16, I: int64(v)} }
func I32(v int32) W         { return W{K: KI32, I: int64(v)} }
func I64(v int64) W         { return W{K: KI64, I: v} }
func Double(v float64) W    { return W{K: KDouble, F: math.Float64bits(v)} }
func DoubleBits(b uint64) W { return W{K: KDouble, F: b} }
func Binary(b []byte) W     { return W{K: KBinary, Bin: b} }
func Struct(fs ...Field) W  { return W{K: KStruct, Fields: fs} }
func List(ek Kind, es ...W) W {
	return W{K: KList, EK: ek, Elems: es}
}
func Set(ek Kind, es ...W) W { return W{K: KSet, EK: ek, Elems: es} }
func Map(kk, vk Kind, ps ...Pair) W {
	return W{K: KMap, KK: kk, VK: vk, Pairs: ps}
}

// Equal is exact structural equality: doubles by bit pattern, binaries by
// bytes, all containers ordered. nil and empty slices are equal.
func Equal(a, b W) bool {
	if a.K != b.K {
		return false
	}
	switch a.K {
	case KBool:
		return a.B == b.B
	case KI8, KI16, KI32, KI64:
		return a.I == b.I
	case KDouble:
		return a.F == b.F
	case KBinary:
		return bytes.Equal(a.Bin, b.Bin)
	case KStruct:
		if len(a.Fields) != len(b.Fields) {
			return false
		}
		for i := range a.Fields {
			if a.Fields[i].ID != b.Fields[i].ID || !Equal(a.Fields[i].V, b.Fields[i].V) {
				return false
			}
		}
		return true
	case KList, KSet:
		if a.EK != b.EK || len(a.Elems) != len(b.Elems) {
			return false
		}
		for i := range a.Elems {
			if !Equal(a.Elems[i], b.Elems[i]) {
				return false
			}
		}
		return true
	case KMap:
		if a.KK != b.KK || a.VK != b.VK || len(a.Pairs) != len(b.Pairs) {
			return false
		}
		for i := range a.Pairs {
			if !Equal(a.Pairs[i].K, b.Pairs[i].K) || !Equal(a.Pairs[i].V, b.Pairs[i].V) {
				return false
			}
		}
		return true
	}
	return false
}

// WellTyped reports whether every child has the kind its container declares.
func WellTyped(w W) bool {
	if !w.K.Valid() {
		return false
	}
	switch w.K {
	case KStruct:
		for _, f := range w.Fields {
			if !WellTyped(f.V) {
				return false
			}
		}
	case KList, KSet:
		if !w.EK.Valid() {
			return false
		}
		for _, e := range w.Elems {
			if e.K != w.EK || !WellTyped(e) {
				return false
			}
		}
	case KMap:
		if !w.KK.Valid() || !w.VK.Valid() {
			return false
		}
		for _, p := range w.Pairs {
			if p.K.K != w.KK || p.V.K != w.VK || !WellTyped(p.K) || !WellTyped(p.V) {
				return false
			}
		}
	}
	return true
}

// Nodes counts the nodes of the tree.
func Nodes(w W) int {
	n := 1
	for _, f := range w.Fields {
		n += Nodes(f.V)
	}
	for _, e := range w.Elems {
		n += Nodes(e)
	}
	for _, p := range w.Pairs {
		n += Nodes(p.K) + Nodes(p.V)
	}
	return n
}

// Depth is the nesting depth (scalars: 1).
func Depth(w W) int {
	d := 0
	for _, f := range w.Fields {
		if x := Depth(f.V); x > d {
			d = x
		}
	}
	for _, e := range w.Elems {
		if x := Depth(e); x > d {
			d = x
		}
	}
	for _, p := range w.Pairs {
		if x := Depth(p.K); x > d {
			d = x
		}
		if x := Depth(p.V); x > d {
			d = x
		}
	}
	return d + 1
}

// HasNonEmptyContainer reports whether the tree has a container or struct with
// at least one child.
func HasNonEmptyContainer(w W) bool {
	return len(w.Fields)+len(w.Elems)+len(w.Pairs) > 0
}

// Render prints a compact human-readable form (used for evidence samples).
func Render(w W) string {
	var sb strings.Builder
	render(&sb, w, 0)
	return sb.String()
}

func render(sb *strings.Builder, w W, depth int) {
	if sb.Len() > 400 {
		sb.WriteString("…")
		return
	}
	switch w.K {
	case KBool:
		fmt.Fprintf(sb, "%v", w.B)
	case KI8, KI16, KI32, KI64:
		fmt.Fprintf(sb, "%s(%d)", w.K, w.I)
	case KDouble:
		fmt.Fprintf(sb, "double(0x%016x)", w.F)
	case KBinary:
		if len(w.Bin) > 16 {
			fmt.Fprintf(sb, "bin[%d](%x…)", len(w.Bin), w.Bin[:16])
		} else {
			fmt.Fprintf(sb, "bin(%x)", w.Bin)
		}
	case KStruct:
		sb.WriteString("{")
		for i, f := range w.Fields {
			if i > 0 {
				sb.WriteString(", ")
			}
			fmt.Fprintf(sb, "%d: ", f.ID)
			render(sb, f.V, depth+1)
		}
		sb.WriteString("}")
	case KList, KSet:
		fmt.Fprintf(sb, "%s<%s>[", w.K, w.EK)
		for i, e := range w.Elems {
			if i > 0 {
				sb.WriteString(", ")
			}
			render(sb, e, depth+1)
		}
		sb.WriteString("]")
	case KMap:
		fmt.Fprintf(sb, "map<%s,%s>[", w.KK, w.VK)
		for i, p := range w.Pairs {
			if i > 0 {
				sb.WriteString(", ")
			}
			render(sb, p.K, depth+1)
			sb.WriteString(": ")
			render(sb, p.V, depth+1)
		}
		sb.WriteString("]")
	default:
		fmt.Fprintf(sb, "?%d", w.K)
	}
}

// SemEqual compares two trees the way Thrift semantics define equality:
// doubles by IEEE == (so +0 == -0, NaN != NaN), struct fields as an id-keyed
// map (later duplicate wins), lists ordered, sets and maps as unordered
// multisets (each element of one side must be matched by a distinct, equal
// element of the other).
func SemEqual(a, b W) bool {
	if a.K != b.K {
		return false
	}
	switch a.K {
	case KBool:
		return a.B == b.B
	case KI8, KI16, KI32, KI64:
		return a.I == b.I
	case KDouble:
		return math.Float64frombits(a.F) == math.Float64frombits(b.F)
	case KBinary:
		return bytes.Equal(a.Bin, b.Bin)
	case KStruct:
		am, bm := fieldMap(a), fieldMap(b)
		if len(am) != len(bm) {
			return false
		}
		for id, av := range am {
			bv, ok := bm[id]
			if !ok || !SemEqual(av, bv) {
				return false
			}
		}
		return true
	case KList:
		if a.EK != b.EK || len(a.Elems) != len(b.Elems) {
			return false
		}
		for i := range a.Elems {
			if !SemEqual(a.Elems[i], b.Elems[i]) {
				return false
			}
		}
		return true
	case KSet:
		if a.EK != b.EK || len(a.Elems) != len(b.Elems) {
			return false
		}
		return matchMultiset(len(a.Elems), func(i, j int) bool { return SemEqual(a.Elems[i], b.Elems[j]) })
	case KMap:
		if a.KK != b.KK || a.VK != b.VK || len(a.Pairs) != len(b.Pairs) {
			return false
		}
		return matchMultiset(len(a.Pairs), func(i, j int) bool {
			return SemEqual(a.Pairs[i].K, b.Pairs[j].K) && SemEqual(a.Pairs[i].V, b.Pairs[j].V)
		})
	}
	return false
}

func fieldMap(w W) map[int16]W {
	m := make(map[int16]W, len(w.Fields))
	for _, f := range w.Fields {
		m[f.ID] = f.V
	}
	return m
}

// matchMultiset reports whether a perfect matching exists between n left and
// n right items under eq. eq is an equivalence on the inputs we use (NaN-free),
// so greedy matching is exact.
func matchMultiset(n int, eq func(i, j int) bool) bool {
	used := make([]bool, n)
	for i := 0; i < n; i++ {
		found := false
		for j := 0; j < n; j++ {
			if !used[j] && eq(i, j) {
				used[j] = true
				found = true
				break
			}
		}
		if !found {
			return false
		}
	}
	return true
}

// HasNaN reports whether the tree contains a NaN double.
func HasNaN(w W) bool {
	if w.K == KDouble {
		f := math.Float64frombits(w.F)
		return f != f
	}
	for _, f := range w.Fields {
		if HasNaN(f.V) {
			return true
		}
	}
	for _, e := range w.Elems {
		if HasNaN(e) {
			return true
		}
	}
	for _, p := range w.Pairs {
		if HasNaN(p.K) || HasNaN(p.V) {
			return true
		}
	}
	return false
}

// SortFields returns a copy with struct fields sorted by id at every level
// (stable); used to compare against decoders that do not promise field order.
func SortFields(w W) W {
	out := w
	if len(w.Fields) > 0 {
		out.Fields = make([]Field, len(w.Fields))
		for i, f := range w.Fields {
			out.Fields[i] = Field{ID: f.ID, V: SortFields(f.V)}
		}
		sort.SliceStable(out.Fields, func(i, j int) bool { return out.Fields[i].ID < out.Fields[j].ID })
	}
	if len(w.Elems) > 0 {
		out.Elems = make([]W, len(w.Elems))
		for i, e := range w.Elems {
			out.Elems[i] = SortFields(e)
		}
	}
	if len(w.Pairs) > 0 {
		out.Pairs = make([]Pair, len(w.Pairs))
		for i, p := range w.Pairs {
			out.Pairs[i] = Pair{K: SortFields(p.K), V: SortFields(p.V)}
		}
	}
	return out
}

// DupFree reports whether every set and every map's key set is duplicate-free
// under SemEqual, at every depth.
func DupFree(w W) bool {
	if w.K == KSet {
		for i := range w.Elems {
			for j := i + 1; j < len(w.Elems); j++ {
				if SemEqual(w.Elems[i], w.Elems[j]) {
					return false
				}
			}
		}
	}
	if w.K == KMap {
		for i := range w.Pairs {
			for j := i + 1; j < len(w.Pairs); j++ {
				if SemEqual(w.Pairs[i].K, w.Pairs[j].K) {
					return false
				}
			}
		}
	}
	for _, f := range w.Fields {
		if !DupFree(f.V) {
			return false
		}
	}
	for _, e := range w.Elems {
		if !DupFree(e) {
			return false
		}
	}
	for _, p := range w.Pairs {
		if !DupFree(p.K) || !DupFree(p.V) {
			return false
		}
	}
	return true
}
